#!/usr/bin/env python3
"""Writes MANIFEST.json from checkconf.py (claimed checks) and notapplicable.json (everything else)."""
import json, os, sys
here = os.path.dirname(os.path.abspath(__file__))
sys.path.insert(0, here)
from checkconf import PROPS
ids = [json.loads(l)["id"] for l in open(os.path.join(here, "properties.jsonl"))]
na = json.load(open(os.path.join(here, "notapplicable.json"))) if os.path.exists(os.path.join(here, "notapplicable.json")) else {}
checks = []
for pid in ids:
    if pid not in PROPS:
        continue
    c = PROPS[pid]
    checks.append({
        "property_id": pid,
        "quick_cmd": "./check %s quick" % pid,
        "thorough_cmd": "./check %s thorough" % pid,
        "evidence_file": "/verif/evidence/%s.json" % pid,
        "replay_cmd_template": "./check %s --replay {path}" % pid,
        "engine": "rapid-harness",
        "level_claimed": {"category": "exploration", "text": c["level_text"], "design_ref": c["design_ref"]},
        "level_note": c["level_note"],
        "technique": c["technique"],
    })
hooks_commits = []
hc = os.path.join(here, "hook_commits.txt")
if os.path.exists(hc):
    hooks_commits = [l.strip() for l in open(hc) if l.strip()]
m = {
    "version": 1,
    "setup_cmd": "./setup.sh",
    "hooks": {
        "guard": "verif",
        "enable": "go build tag: the harness is compiled with `go test -c -tags verif` against /repo (replace directive), which compiles /repo/verif_hooks.go",
        "baseline_off_cmd": "cd /repo && GOFLAGS=-mod=mod GOPROXY=off GOSUMDB=off GOTOOLCHAIN=local go test -json -vet=off -count=1 -timeout 25m ./...",
        "source_commits": hooks_commits,
        "add_only": True,
    },
    "engines": [{
        "name": "rapid-harness",
        "path": "/verif/harness",
        "serves_properties": [c["property_id"] for c in checks],
        "kind_free_text": "Go test binary built from /verif/harness against /repo's working tree; property-based testing with pgregory.net/rapid v1.3.0 "
                          "(seeded, sharded by PRNG value over the cores), plain replay of saved cases, and native go fuzzing in the thorough tier; driven by /verif/check (python3 stdlib).",
    }],
    "checks": checks,
    "notes": "Every check decides its property by generated-input search against an explicit oracle (reference model, round trip, differential or frame condition); see DESIGN.md. "
             "known_findings.json lists open findings and fixed: records; regress/<id>/ holds shrunk reproducers replayed on every run.",
    "not_applicable": [{"property_id": pid, "reason": na.get(pid, "check not built yet (work in progress); no claim is made for this property")}
                       for pid in ids if pid not in PROPS],
}
json.dump(m, open(os.path.join(here, "MANIFEST.json"), "w"), indent=1)
print("claimed", len(checks), "not_applicable", len(m["not_applicable"]))
