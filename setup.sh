#!/bin/sh
# Offline setup: verify the toolchain and warm the Go build cache (std + rapid, plain and -race).
# Nothing built here is used directly by a check: every check rebuilds the harness from /repo's working tree.
set -e
cd "$(dirname "$0")/harness"
export GOFLAGS=-mod=mod GOPROXY=off GOSUMDB=off GOTOOLCHAIN=local
go version
tmp=$(mktemp -d)
trap 'rm -rf "$tmp"' EXIT
go test -c -tags verif -o "$tmp/props.test" .
go test -c -tags verif -race -o "$tmp/props.race.test" . || echo "race build unavailable (C17 will report it)"
echo setup ok
