module verifharness

go 1.23

require (
	github.com/clbanning/mxj/v2 v2.0.0
	pgregory.net/rapid v1.3.0
)

replace github.com/clbanning/mxj/v2 => /repo
