package props

// C13 - stream decoding is independent of how the reader delivers bytes.

import (
	"bufio"
	"bytes"
	"encoding/json"
	"io"
	"os"
	"reflect"
	"strings"
	"testing"

	mxj "github.com/clbanning/mxj/v2"
	x2jw "github.com/clbanning/mxj/v2/x2j-wrapper"
	"pgregory.net/rapid"
)

type CaseC13 struct {
	Kind      string                   `json:"kind"` // xml | seq | json
	API       string                   `json:"api"`  // reader | raw | handler | handler-raw | wrapper
	XDocs     []*XElem                 `json:"xdocs,omitempty"`
	JDocs     []map[string]interface{} `json:"jdocs,omitempty"`
	JIndent   []bool                   `json:"jindent,omitempty"`
	Lead      []string                 `json:"lead"`             // whitespace before each document
	Prolog    []string                 `json:"prolog,omitempty"` // XML kinds: declaration / comment / DOCTYPE before a document
	Trail     string                   `json:"trail"`
	Sched     []int                    `json:"sched"`           // >0: deliver up to n bytes; 0: (0, nil)
	Cycle     bool                     `json:"cycle,omitempty"` // the schedule repeats instead of falling back to one byte per read
	EOFWith   bool                     `json:"eof_with"`
	Bufio     bool                     `json:"bufio"`
	Huge      int                      `json:"huge,omitempty"`       // > 0: document HugeAt carries a string of that many bytes (one document longer than 64 KiB); expanded at check time
	HugeAt    int                      `json:"huge_at,omitempty"`
	Respell   int                      `json:"respell,omitempty"` // JSON documents are respelled (see respellJSON) before they go into the stream
	Align     int                      `json:"align,omitempty"`   // > 0: blanks before document AlignDoc make it END on a multiple of Align bytes (buffer and block boundaries)
	AlignDoc  int                      `json:"align_doc,omitempty"`
	Stop      int                      `json:"stop"`                 // handlers: return false at the Stop-th document (0: never)
	DecOpts   uint32                   `json:"dec_opts,omitempty"`   // decoder options in force for the direct and the stream decoding alike (see applyUnrelatedOptions)
	UseNumber bool                     `json:"use_number,omitempty"` // JSON kinds: mxj.JsonUseNumber is on for the direct and the stream decoding alike
}

func init() { register("C13", checkC13) }

// schedReader delivers data according to a schedule of actions.
type schedReader struct {
	data       []byte
	pos        int
	sched      []int
	si         int
	eofWith    bool
	bounds     map[int]bool // offsets at which a document ends
	cycle      bool
	empties    int
	sawEmpty   bool
	sawSpan    bool
	sawEOFData bool
}

func (r *schedReader) Read(p []byte) (int, error) {
	if r.pos >= len(r.data) {
		return 0, io.EOF
	}
	if len(p) == 0 {
		return 0, nil
	}
	act := 1
	if r.cycle && r.si >= len(r.sched) {
		r.si = 0
	}
	if r.si < len(r.sched) {
		act = r.sched[r.si]
		r.si++
	}
	if act == 0 {
		r.sawEmpty = true
		r.empties++
		return 0, nil
	}
	n := act
	if n > len(p) {
		n = len(p)
	}
	if n > len(r.data)-r.pos {
		n = len(r.data) - r.pos
	}
	copy(p, r.data[r.pos:r.pos+n])
	for b := r.pos + 1; b < r.pos+n; b++ {
		if r.bounds[b] {
			r.sawSpan = true
		}
	}
	r.pos += n
	if r.pos >= len(r.data) && r.eofWith {
		r.sawEOFData = true
		return n, io.EOF
	}
	return n, nil
}

// pieces of JSON string values: structural characters, quotes and backslashes, and texts that LOOK like escapes
// (a literal backslash followed by u0008 is six characters of data, not a backspace)
var jsonStrPieces = []string{"a", "{", "}", "\"", "\\", " ", "[", "]", ":", ",", "\n", "é", "\t", "}{", "\\\"",
	"\\u0008", "\\u000c", "\\u003c", "\\u0026", "\\b", "\\f", "\\n", "\b", "\f", "<", ">", "&", "\U0001F600", "\u2028", "\\u2028", "\\ud83d", "\x7f", "%", "%d", "%%", "%v", "100%", "/", "http://x/", "</script>"}

func genJSONString(t *rapid.T) string {
	if rapid.IntRange(0, 9).Draw(t, "jslook") == 4 {
		return rapid.SampledFrom(lookalikes).Draw(t, "jsla") // whole values that look like something else (Infinity, <nil>, 1.0 ...)
	}
	n := rapid.IntRange(0, 5).Draw(t, "jsn")
	var sb strings.Builder
	for i := 0; i < n; i++ {
		sb.WriteString(rapid.SampledFrom(jsonStrPieces).Draw(t, "jsc"))
	}
	return sb.String()
}

func genJSONObj(t *rapid.T, depth int) map[string]interface{} {
	m := map[string]interface{}{}
	n := rapid.IntRange(1, 3).Draw(t, "on")
	for i := 0; i < n; i++ {
		k := rapid.SampledFrom([]string{"a", "b", "k}", "q\"", "b\\", "{", " sp "}).Draw(t, "ok")
		switch rapid.IntRange(0, 4).Draw(t, "ov") {
		case 0:
			m[k] = genJSONString(t)
		case 1:
			m[k] = float64(rapid.IntRange(0, 9).Draw(t, "of"))
		case 2:
			if depth > 0 {
				m[k] = genJSONObj(t, depth-1)
			} else {
				m[k] = true
			}
		case 3:
			m[k] = []interface{}{genJSONString(t), genJSONString(t) + "\\"}
		default:
			m[k] = genJSONString(t) + "\\"
		}
	}
	return m
}

func genC13(t *rapid.T) CaseC13 {
	c := CaseC13{Kind: rapid.SampledFrom([]string{"xml", "seq", "json"}).Draw(t, "kind")}
	apis := []string{"reader", "raw", "handler", "handler-raw"}
	if c.Kind == "xml" {
		apis = append(apis, "wrapper")
	}
	if c.Kind == "seq" {
		apis = []string{"reader", "raw"}
	} else {
		apis = append(apis, "file", "file-raw") // the file readers inherit the property (no delivery schedule: the os decides)
	}
	c.API = rapid.SampledFrom(apis).Draw(t, "api")
	nd := rapid.IntRange(1, 5).Draw(t, "ndocs")
	for i := 0; i < nd; i++ {
		c.Lead = append(c.Lead, rapid.SampledFrom(wsRuns).Draw(t, "leadws"))
		if c.Kind != "json" {
			c.Prolog = append(c.Prolog, rapid.SampledFrom([]string{"", "", "", "<?xml version=\"1.0\"?>", "<!-- between documents -->", "<!DOCTYPE a>", "<?xml version=\"1.0\" encoding=\"UTF-8\"?>\n"}).Draw(t, "prolog"))
		}
		switch c.Kind {
		case "xml":
			g := XGen{Opts: defaultOpts(), MixedText: true, Namespaces: true}
			c.XDocs = append(c.XDocs, g.Elem(t, 2))
		case "seq":
			g := XGen{Opts: defaultOpts(), Extras: true, Namespaces: true, SeqKeys: true}
			c.XDocs = append(c.XDocs, g.Elem(t, 2))
		default:
			c.JDocs = append(c.JDocs, genJSONObj(t, 2))
			c.JIndent = append(c.JIndent, rapid.Bool().Draw(t, "indentdoc"))
		}
	}
	c.Trail = rapid.SampledFrom(wsRuns).Draw(t, "trailws")
	n := rapid.IntRange(0, 60).Draw(t, "schedlen")
	c.Sched = make([]int, n)
	for i := range c.Sched {
		c.Sched[i] = rapid.SampledFrom([]int{0, 1, 1, 1, 2, 3, 7, 64}).Draw(t, "act")
	}
	if rapid.IntRange(0, 3).Draw(t, "cycle") == 0 {
		// a reader that keeps stuttering for the whole stream: never 100 empty reads in a row, many in total
		c.Cycle = true
		if rapid.Bool().Draw(t, "stutter") {
			c.Sched = []int{0, rapid.SampledFrom([]int{1, 1, 2, 5}).Draw(t, "stn")}
		}
		pos := false
		for _, a := range c.Sched {
			pos = pos || a > 0
		}
		if !pos {
			c.Sched = append(c.Sched, 1)
		}
	}
	if c.Kind == "json" {
		c.UseNumber = rapid.IntRange(0, 3).Draw(t, "usenumber") == 0
		if rapid.IntRange(0, 3).Draw(t, "respell") == 0 {
			c.Respell = rapid.IntRange(1, 15).Draw(t, "respellmode")
		}
	}
	if rapid.IntRange(0, 59).Draw(t, "huge") == 23 {
		c.Huge = rapid.SampledFrom([]int{65536, 70000, 140000}).Draw(t, "hugesize")
		c.HugeAt = rapid.IntRange(0, nd-1).Draw(t, "hugeat")
	}
	if rapid.IntRange(0, 9).Draw(t, "align") == 0 {
		c.Align = rapid.SampledFrom([]int{512, 1024, 4096, 4096, 4096, 8192}).Draw(t, "alignto")
		c.AlignDoc = rapid.IntRange(0, nd-1).Draw(t, "aligndoc")
	}
	c.DecOpts = genUnrelated(t)
	c.EOFWith = rapid.Bool().Draw(t, "eofWith")
	c.Bufio = rapid.Bool().Draw(t, "bufio")
	if strings.HasPrefix(c.API, "handler") || c.API == "wrapper" {
		c.Stop = rapid.IntRange(0, nd).Draw(t, "stop")
	}
	return c
}

// stripWS removes the JSON-insignificant whitespace (outside strings).
func stripWS(b []byte) []byte {
	var out []byte
	inq, esc := false, false
	for _, c := range b {
		if inq {
			out = append(out, c)
			if esc {
				esc = false
			} else if c == '\\' {
				esc = true
			} else if c == '"' {
				inq = false
			}
			continue
		}
		if c == ' ' || c == '\n' || c == '\t' || c == '\r' {
			continue
		}
		if c == '"' {
			inq = true
		}
		out = append(out, c)
	}
	return out
}

func checkC13(c CaseC13, info *Info) *Failure {
	nd := len(c.XDocs) + len(c.JDocs)
	if nd == 0 || len(c.Lead) < nd {
		info.Skip = "empty case"
		return nil
	}
	defer resetOptions()
	applyUnrelatedOptions(c.DecOpts)
	info.ClassIf(c.DecOpts != 0, "non-default decoder options in force")
	if c.Huge > 0 {
		pad := strings.Repeat("p", c.Huge)
		if len(c.JDocs) > 0 {
			docs := append([]map[string]interface{}(nil), c.JDocs...)
			d := copyMap(docs[c.HugeAt%len(docs)])
			d["pad"] = pad
			docs[c.HugeAt%len(docs)] = d
			c.JDocs = docs
		} else {
			docs := append([]*XElem(nil), c.XDocs...)
			d := *docs[c.HugeAt%len(docs)]
			d.Attrs = append(append([]XAttr(nil), d.Attrs...), XAttr{Local: "pad", Value: pad})
			docs[c.HugeAt%len(docs)] = &d
			c.XDocs = docs
		}
		info.Class("a document longer than 64 KiB in the stream")
	}
	// build the stream and the expected Maps (direct decoding of each document's own bytes)
	var stream bytes.Buffer
	var docs [][]byte
	var want []map[string]interface{}
	var wantNoRoot []bool // sequence decoder: a leading declaration/comment/directive is delivered as its own no-root result
	bounds := map[int]bool{}
	prologs := 0
	for i := 0; i < nd; i++ {
		var b []byte
		prolog := ""
		if i < len(c.Prolog) {
			prolog = c.Prolog[i]
		}
		switch c.Kind {
		case "json":
			if i < len(c.JIndent) && c.JIndent[i] {
				b, _ = json.MarshalIndent(c.JDocs[i], "", " ")
			} else {
				b, _ = json.Marshal(c.JDocs[i])
			}
			if c.Respell != 0 {
				b = respellJSON(b, c.Respell)
				info.Class("JSON text respelled (escaped solidus, \\u escapes, N.0 numbers, blanks)")
			}
			m, err := mxj.NewMapJson(b)
			if err != nil || !reflect.DeepEqual(map[string]interface{}(m), c.JDocs[i]) {
				info.Skip = "generated JSON does not decode to itself"
				return nil
			}
			if c.UseNumber {
				mxj.JsonUseNumber = true
				if m, err = mxj.NewMapJson(b); err != nil {
					return failf("direct-decode-error", "NewMapJson(%q) with JsonUseNumber: %v", b, err)
				}
			}
			want = append(want, m)
		case "seq":
			if strings.TrimSpace(prolog) != "" {
				pm, perr := mxj.NewMapXmlSeq([]byte(prolog))
				if perr != mxj.NoRoot {
					return failf("direct-decode-error", "NewMapXmlSeq(%q): %v, expected the no-root result", prolog, perr)
				}
				stream.WriteString(c.Lead[i])
				stream.WriteString(prolog)
				docs = append(docs, []byte(strings.TrimSpace(prolog)))
				want = append(want, pm)
				wantNoRoot = append(wantNoRoot, true)
				bounds[stream.Len()] = true
				prologs++
				prolog = ""
			}
			b = []byte(c.XDocs[i].String())
			m, err := mxj.NewMapXmlSeq(b)
			if err != nil {
				return failf("direct-decode-error", "NewMapXmlSeq(%q): %v", b, err)
			}
			want = append(want, m)
		default:
			b = []byte(c.XDocs[i].String())
			m, err := mxj.NewMapXml(b)
			if err != nil {
				return failf("direct-decode-error", "NewMapXml(%q): %v", b, err)
			}
			want = append(want, m)
		}
		if c.Align > 0 && i == c.AlignDoc {
			end := stream.Len() + len(c.Lead[i]) + len(b)
			if c.Kind == "xml" {
				end += len(prolog)
			}
			stream.WriteString(strings.Repeat(" ", (c.Align-end%c.Align)%c.Align))
			info.ClassIf(i < len(c.Lead)-1, "a document ends on a multiple of 512..8192 bytes and another follows")
		}
		stream.WriteString(c.Lead[i])
		if c.Kind == "xml" {
			stream.WriteString(prolog) // skipped by the Map decoder, part of the consumed (raw) bytes
		}
		stream.Write(b)
		docs = append(docs, b)
		wantNoRoot = append(wantNoRoot, false)
		bounds[stream.Len()] = true
	}
	nd += prologs
	stream.WriteString(c.Trail)
	bystanders() // whatever else the library did between the direct decodes and the stream must not matter
	data := stream.Bytes()
	sr := &schedReader{data: data, sched: c.Sched, eofWith: c.EOFWith, bounds: bounds, cycle: c.Cycle && hasPositive(c.Sched)}
	var rdr io.Reader = sr
	if c.Bufio {
		rdr = bufio.NewReaderSize(sr, 16)
	}
	desc := func() string {
		return "kind " + c.Kind + " api " + c.API + " stream " + strconvQuote(data) + " sched " + canon(c.Sched) + " eofWith=" + boolStr(c.EOFWith) + " bufio=" + boolStr(c.Bufio)
	}

	if strings.HasPrefix(c.API, "file") {
		return checkC13file(c, data, docs, want, nd, desc, info)
	}
	var got []map[string]interface{}
	var gotNoRoot []bool
	var raws [][]byte
	var lastErr error
	readOne := func() (map[string]interface{}, []byte, error) {
		switch {
		case c.Kind == "seq" && c.API == "raw":
			ms, r, err := mxj.NewMapXmlSeqReaderRaw(rdr)
			return ms, r, err
		case c.Kind == "seq":
			ms, err := mxj.NewMapXmlSeqReader(rdr)
			return ms, nil, err
		case c.Kind == "json" && (c.API == "raw" || c.API == "handler-raw"):
			m, r, err := mxj.NewMapJsonReaderRaw(rdr)
			return m, r, err
		case c.Kind == "json":
			m, err := mxj.NewMapJsonReader(rdr)
			return m, nil, err
		case c.API == "raw" || c.API == "handler-raw":
			m, r, err := mxj.NewMapXmlReaderRaw(rdr)
			return m, r, err
		}
		m, err := mxj.NewMapXmlReader(rdr)
		return m, nil, err
	}
	rawAPI := c.API == "raw" || c.API == "handler-raw"

	if strings.HasPrefix(c.API, "handler") || c.API == "wrapper" {
		calls := 0
		var herr error
		mh := func(m mxj.Map) bool {
			calls++
			got = append(got, m)
			if calls%2 == 1 {
				bystanders() // a handler works with the library while the stream is open
			}
			return calls != c.Stop
		}
		mhr := func(m mxj.Map, r []byte) bool {
			raws = append(raws, r)
			return mh(m)
		}
		var errs []error
		eh := func(e error) bool { errs = append(errs, e); return false }
		ehr := func(e error, r []byte) bool { return eh(e) }
		switch {
		case c.API == "wrapper":
			herr = x2jw.XmlMsgsFromReader(rdr, func(m map[string]interface{}) bool { return mh(m) }, eh)
		case c.Kind == "json" && c.API == "handler":
			herr = mxj.HandleJsonReader(rdr, mh, eh)
		case c.Kind == "json":
			herr = mxj.HandleJsonReaderRaw(rdr, mhr, ehr)
		case c.API == "handler":
			herr = mxj.HandleXmlReader(rdr, mh, eh)
		default:
			herr = mxj.HandleXmlReaderRaw(rdr, mhr, ehr)
		}
		if herr != nil || len(errs) > 0 {
			return failf("handler-error", "%s: handler returned %v, error handler saw %v after %d documents", desc(), herr, errs, len(got))
		}
		wantCalls := nd
		if c.Stop > 0 && c.Stop < nd {
			wantCalls = c.Stop
		}
		if len(got) != wantCalls {
			return failf("handler-call-count", "%s: map handler called %d times, want %d", desc(), len(got), wantCalls)
		}
		if c.API == "wrapper" && c.Stop > 0 && c.Stop < nd {
			// x2j-wrapper.XmlMsgsFromReader is no core reader function: where it leaves the reader after an early stop is
			// not pinned by the property (leniency 16); the messages it handed out are checked, the rest is not read on
			info.Unspecified("reader position after x2j-wrapper.XmlMsgsFromReader stopped early (leniency 16)")
			for i := range got {
				if !reflect.DeepEqual(got[i], want[i]) {
					return failf("document-mismatch", "%s: document %d: got %#v want %#v", desc(), i, got[i], want[i])
				}
			}
			info.Class("kind:" + c.Kind)
			info.Class("api:" + c.API)
			info.ClassIf(true, "handler stopped early")
			info.NonTrivial(nd >= 2 && (sr.sawEmpty || sr.sawSpan || sr.sawEOFData))
			return nil
		}
		// after a 'false' return the next reader call yields exactly the following document
		for {
			m, r, err := readOne()
			if err != nil {
				lastErr = err
				raws = append(raws, r)
				break
			}
			got = append(got, m)
			raws = append(raws, r)
			if len(got) > nd+2 {
				break
			}
		}
	} else {
		for i := 0; i < nd+2; i++ {
			m, r, err := readOne()
			if err == mxj.NoRoot && c.Kind == "seq" {
				got = append(got, m)
				gotNoRoot = append(gotNoRoot, true)
				raws = append(raws, r)
				continue
			}
			if err != nil {
				lastErr = err
				raws = append(raws, r)
				break
			}
			got = append(got, m)
			gotNoRoot = append(gotNoRoot, false)
			raws = append(raws, r)
		}
	}
	if lastErr != io.EOF {
		return failf("stream-error", "%s: final error %v after %d of %d documents", desc(), lastErr, len(got), nd)
	}
	if len(got) != nd {
		return failf("document-count", "%s: got %d documents, want %d", desc(), len(got), nd)
	}
	for i := range got {
		if !reflect.DeepEqual(got[i], want[i]) {
			return failf("document-mismatch", "%s: document %d: got %#v want %#v", desc(), i, got[i], want[i])
		}
		if c.Kind == "seq" && i < len(gotNoRoot) && gotNoRoot[i] != wantNoRoot[i] {
			return failf("document-mismatch", "%s: result %d: no-root=%v, direct decoding says %v", desc(), i, gotNoRoot[i], wantNoRoot[i])
		}
	}
	info.ClassIf(prologs > 0 || (c.Kind == "xml" && strings.TrimSpace(strings.Join(c.Prolog, "")) != ""), "declaration/comment/DOCTYPE before a document")
	if rawAPI {
		cat := bytes.Join(raws, nil)
		if c.Kind == "json" {
			// the raw values are the consumed bytes, literally or with the JSON-insignificant whitespace removed
			// (leniency 1): in both readings their significant bytes are exactly those of the stream, in order
			if !bytes.Equal(stripWS(data), stripWS(cat)) {
				return failf("raw-mismatch", "%s: raw concatenation %q does not carry the significant bytes of the stream %q", desc(), cat, stripWS(data))
			}
			if !bytes.HasPrefix(data, cat) && !bytes.Equal(stripWS(cat), cat) {
				return failf("raw-mismatch", "%s: raw concatenation %q is neither a literal prefix of the stream nor its whitespace-free form", desc(), cat)
			}
			for i := 0; i < nd && i < len(raws); i++ {
				if !bytes.Equal(stripWS(raws[i]), stripWS(docs[i])) {
					return failf("raw-mismatch", "%s: raw %d %q != document %q (modulo insignificant whitespace)", desc(), i, raws[i], stripWS(docs[i]))
				}
			}
		} else {
			if !bytes.HasPrefix(data, cat) {
				return failf("raw-mismatch", "%s: raw concatenation %q is not a prefix of the stream", desc(), cat)
			}
			for i := 0; i < nd && i < len(raws); i++ {
				if !bytes.Contains(raws[i], docs[i]) {
					return failf("raw-mismatch", "%s: raw %d %q does not contain its document %q", desc(), i, raws[i], docs[i])
				}
			}
		}
	}
	info.Class("kind:" + c.Kind)
	info.Class("api:" + c.API)
	info.ClassIf(sr.sawEmpty, "schedule delivered a (0,nil) read")
	info.ClassIf(sr.empties >= 100*nd, "at least 100 (0,nil) reads per document, never 100 in a row")
	info.ClassIf(sr.sawSpan, "a read spanned a document boundary")
	info.ClassIf(sr.sawEOFData, "final data delivered together with io.EOF")
	info.ClassIf(c.Stop > 0 && c.Stop < nd, "handler stopped early")
	info.ClassIf(c.UseNumber, "JsonUseNumber on")
	info.NonTrivial(nd >= 2 && (sr.sawEmpty || sr.sawSpan || sr.sawEOFData))
	return nil
}

func boolStr(b bool) string {
	if b {
		return "true"
	}
	return "false"
}

func strconvQuote(b []byte) string {
	s, _ := json.Marshal(string(b))
	return string(s)
}

func TestC13(t *testing.T) { runProp(t, "C13", genC13, checkC13) }

func hasPositive(s []int) bool {
	for _, a := range s {
		if a > 0 {
			return true
		}
	}
	return false
}

// checkC13file: the file readers return the same Maps in the same order as decoding each document directly
// (and, for the Raw forms, raw values that contain each document's text).
func checkC13file(c CaseC13, data []byte, docs [][]byte, want []map[string]interface{}, nd int, desc func() string, info *Info) *Failure {
	f, err := os.CreateTemp("", "verif-c13-*")
	if err != nil {
		info.Skip = "no temp file"
		return nil
	}
	name := f.Name()
	defer os.Remove(name)
	_, werr := f.Write(data)
	f.Close()
	if werr != nil {
		info.Skip = "no temp file"
		return nil
	}
	var got []map[string]interface{}
	var raws [][]byte
	var rerr error
	switch {
	case c.Kind == "json" && c.API == "file":
		var ms mxj.Maps
		ms, rerr = mxj.NewMapsFromJsonFile(name)
		for _, m := range ms {
			got = append(got, m)
		}
	case c.Kind == "json":
		var ms []mxj.MapRaw
		ms, rerr = mxj.NewMapsFromJsonFileRaw(name)
		for _, m := range ms {
			got = append(got, m.M)
			raws = append(raws, m.R)
		}
	case c.API == "file":
		var ms mxj.Maps
		ms, rerr = mxj.NewMapsFromXmlFile(name)
		for _, m := range ms {
			got = append(got, m)
		}
	default:
		var ms []mxj.MapRaw
		ms, rerr = mxj.NewMapsFromXmlFileRaw(name)
		for _, m := range ms {
			got = append(got, m.M)
			raws = append(raws, m.R)
		}
	}
	if rerr != nil {
		return failf("stream-error", "%s: file reader returned %v after %d of %d documents", desc(), rerr, len(got), nd)
	}
	if len(got) != nd {
		return failf("document-count", "%s: file reader returned %d documents, want %d", desc(), len(got), nd)
	}
	for i := range got {
		if !reflect.DeepEqual(got[i], want[i]) {
			return failf("document-mismatch", "%s: document %d: got %#v want %#v", desc(), i, got[i], want[i])
		}
	}
	for i := range raws {
		ok := bytes.Contains(raws[i], docs[i])
		if c.Kind == "json" {
			ok = bytes.Equal(stripWS(raws[i]), stripWS(docs[i]))
		}
		if !ok {
			return failf("raw-mismatch", "%s: raw %d %q does not carry its document %q", desc(), i, raws[i], docs[i])
		}
	}
	info.Class("kind:" + c.Kind)
	info.Class("api:" + c.API)
	info.ClassIf(c.UseNumber, "JsonUseNumber on")
	info.NonTrivial(nd >= 2)
	return nil
}
