package props

// C06 - JSON encode/decode is lossless and agrees with encoding/json.

import (
	"bytes"
	"encoding/json"
	"reflect"
	"strings"
	"testing"

	mxj "github.com/clbanning/mxj/v2"
	"github.com/clbanning/mxj/v2/j2x"
	"pgregory.net/rapid"
)

type CaseC06 struct {
	Clause    string                 `json:"clause"` // roundtrip | diff
	Map       map[string]interface{} `json:"map,omitempty"`
	Safe      bool                   `json:"safe,omitempty"`
	Indent    bool                   `json:"indent,omitempty"`
	Prefix    string                 `json:"prefix,omitempty"`
	Ind       string                 `json:"ind,omitempty"`
	Input     []byte                 `json:"input,omitempty"`
	Pristine  bool                   `json:"pristine,omitempty"`
	UseNumber bool                   `json:"use_number,omitempty"`
	Alias     *AliasSpec             `json:"alias,omitempty"` // the encoded Map holds one container object twice (built in Go, not decoded); the reference sees it by value
}

func init() { register("C06", checkC06) }

var jsAlphabet = []string{"a", "<", ">", "&", "\\", "\"", "\\u003c", "\\u003e", "\\u0026", " ", "\x01", "\n", "\t", "é", "世", "/", "u003c", "{", "}", " ", "\\\\", "\\\"", "\x7f", "]", "[", "\\u0008", "\\u000c", "\\u000a", "\\u001f", "\\u2028", "\\u0022", "\\b", "\\f", "\\n", "\\u005c", "\b", "\f",
	"\U0001F600", "e\u0301", "\u2028", "\u2029", "\ufeff", "\\ud83d\\ude00", "\\ud800", "\ufffd", "%", "%d", "%%", "%s", "100%"}

func genJStr(t *rapid.T, label string) string {
	if rapid.IntRange(0, 9).Draw(t, label+"look") == 0 {
		// whole strings that look like a literal of another notation or like a piece of JSON text (see lookalikes)
		return rapid.SampledFrom(lookalikes).Draw(t, label+"la")
	}
	n := rapid.IntRange(0, 6).Draw(t, label+"n")
	var sb strings.Builder
	for i := 0; i < n; i++ {
		sb.WriteString(rapid.SampledFrom(jsAlphabet).Draw(t, label))
	}
	return sb.String()
}

func genJVal(t *rapid.T, d int) interface{} {
	k := rapid.IntRange(0, 7).Draw(t, "k")
	if d <= 0 && k > 4 {
		k = 0
	}
	switch k {
	case 0, 1:
		return genJStr(t, "s")
	case 2:
		if rapid.Bool().Draw(t, "smallnum") {
			return rapid.SampledFrom(someFloats).Draw(t, "sf")
		}
		return rapid.Float64().Draw(t, "f")
	case 3:
		return rapid.Bool().Draw(t, "b")
	case 4:
		return nil
	case 5:
		n := rapid.IntRange(0, 3).Draw(t, "ln")
		l := make([]interface{}, n)
		for i := range l {
			l[i] = genJVal(t, d-1)
		}
		return l
	default:
		return genJMap(t, d-1)
	}
}

func genJMap(t *rapid.T, d int) map[string]interface{} {
	m := map[string]interface{}{}
	n := rapid.IntRange(0, 4).Draw(t, "mn")
	for i := 0; i < n; i++ {
		k := genJStr(t, "key")
		if rapid.IntRange(0, 5).Draw(t, "wkkey") == 3 {
			// names that mean something to the library elsewhere (default tags, reserved keys) or to formats built on JSON
			k = rapid.SampledFrom([]string{"object", "object", "doc", "element", "stream", "$", "$ref", "@id", "-id", "#text", "xmlns", "nil", "type", "length", "__proto__"}).Draw(t, "wkk")
		}
		m[k] = genJVal(t, d)
	}
	return m
}

var jsonLiterals = []string{"null", "[1,2]", " [1]", "[1] x", "{}", "{} {}", "{\"a\":1}x", "1", "\"s\"", "[", "{", "{\"a\":1e999}", "{\"a\":12345678901234567890}",
	"{\"a\":1,\"a\":2}", "\xff", "{\"a\":\"\xff\"}", "true", "[null]", "[]", "[[1],{\"a\":[]}]", "{\"a\":1.0}", "{\"a\":1e2}", "{\"a\":-0}", "{\"a\":0.10}", "[1.50]", "{\"a\":{\"b\":[1,2.0,3e0]}}", " {\"a\":1}", "\n{}", "[}", "{]", "{\"a\"}", "{\"a\":}", "[1,]", "nul", "{\"a\":nul}"}

var jsonMutBytes = []byte{'{', '}', '[', ']', '"', ':', ',', '\\', ' ', 'a', '1', 0xff, 'e', '.', '-', 'n', 't'}

func mutateJSON(t *rapid.T, b []byte) []byte {
	n := rapid.IntRange(0, 2).Draw(t, "nmut")
	for i := 0; i < n && len(b) > 0; i++ {
		pos := rapid.IntRange(0, len(b)-1).Draw(t, "pos")
		switch rapid.IntRange(0, 4).Draw(t, "mut") {
		case 0:
			b = b[:pos]
		case 1:
			b = append([]byte(nil), b...)
			b[pos] = rapid.SampledFrom(jsonMutBytes).Draw(t, "byte")
		case 2:
			ins := rapid.SampledFrom([]string{"}", "{", "\"", "\\", "]", "[", ",", "null", " ", "\xff", "1e999", "x"}).Draw(t, "ins")
			b = append(append(append([]byte(nil), b[:pos]...), ins...), b[pos:]...)
		case 3:
			b = append(append([]byte(nil), b[:pos]...), b[pos+1:]...)
		case 4:
			b = append(append([]byte(nil), b...), b[pos:]...)
		}
	}
	return b
}

func genC06(t *rapid.T) CaseC06 {
	c := CaseC06{Clause: rapid.SampledFrom([]string{"roundtrip", "diff"}).Draw(t, "clause")}
	if c.Clause == "roundtrip" {
		c.Map = genJMap(t, 3)
		c.Safe = rapid.Bool().Draw(t, "safe")
		c.Indent = rapid.Bool().Draw(t, "indent")
		c.Prefix = rapid.SampledFrom([]string{"", " ", "\t"}).Draw(t, "p")
		c.Ind = rapid.SampledFrom([]string{"", "  ", "\t"}).Draw(t, "i")
		if rapid.IntRange(0, 3).Draw(t, "alias") == 0 {
			c.Alias = &AliasSpec{Src: rapid.IntRange(0, 30).Draw(t, "asrc"), Dst: rapid.IntRange(0, 30).Draw(t, "adst"), Key: rapid.SampledFrom([]string{"al", "a", "k"}).Draw(t, "akey")}
		}
		return c
	}
	var b []byte
	switch rapid.IntRange(0, 3).Draw(t, "src") {
	case 0, 3:
		b, _ = json.Marshal(genJMap(t, 2))
	case 1:
		b, _ = json.Marshal(genJVal(t, 2))
	case 2:
		b = []byte(rapid.SampledFrom(jsonLiterals).Draw(t, "lit"))
	}
	m := mutateJSON(t, b)
	c.Pristine = bytes.Equal(m, b)
	if rapid.IntRange(0, 9).Draw(t, "big") == 0 {
		// inputs around the sizes at which decoders change buffers (512, 4096, 65536), with and without data after the first value
		size := rapid.SampledFrom([]int{500, 512, 520, 4080, 4096, 4200, 9000, 70000}).Draw(t, "bigsize")
		pad := strings.Repeat(rapid.SampledFrom([]string{" ", "\n", "\t "}).Draw(t, "padws"), size)
		switch rapid.IntRange(0, 2).Draw(t, "padpos") {
		case 0: // a long string member in front
			if len(m) > 0 && m[0] == '{' && len(m) > 2 {
				m = append([]byte(`{"pad":"`+strings.Repeat("p", size)+`",`), m[1:]...)
			}
		case 1: // white space between the first value and what follows
			m = append(append(append([]byte(nil), m...), pad...), rapid.SampledFrom([]string{"", "{}", "x", "]", "{\"b\":2}", ","}).Draw(t, "tail")...)
		default: // white space inside
			if i := bytes.IndexByte(m, ':'); i > 0 {
				m = append(append(append([]byte(nil), m[:i+1]...), pad...), m[i+1:]...)
			}
			m = append(m, rapid.SampledFrom([]string{"", " {}", "x", "]"}).Draw(t, "tail2")...)
		}
		c.Pristine = false
	}
	c.Input = m
	c.UseNumber = rapid.Bool().Draw(t, "usenum")
	return c
}

func countSpecials(v interface{}) (n int, lit bool) {
	switch x := v.(type) {
	case string:
		n = strings.Count(x, "<") + strings.Count(x, ">") + strings.Count(x, "&")
		lit = strings.Contains(x, "\\u00")
	case map[string]interface{}:
		for k, vv := range x {
			a, b := countSpecials(k)
			c, d := countSpecials(vv)
			n += a + c
			lit = lit || b || d
		}
	case []interface{}:
		for _, vv := range x {
			a, b := countSpecials(vv)
			n += a
			lit = lit || b
		}
	}
	return
}

func checkC06(c CaseC06, info *Info) *Failure {
	bystanders() // conversions (also failing ones) that ran before must not matter
	defer resetOptions()
	info.Class("clause " + c.Clause)
	if c.Clause == "roundtrip" {
		if c.Map == nil {
			c.Map = map[string]interface{}{}
		}
		subject := copyMap(c.Map)
		if c.Alias != nil {
			byValue := copyMap(c.Map)
			if applyAlias(subject, *c.Alias, true) && applyAlias(byValue, *c.Alias, false) {
				c.Map = byValue
				info.Class("shared sub-structure in the encoded Map")
			} else {
				subject = copyMap(c.Map)
			}
		}
		var b []byte
		var err error
		if c.Indent {
			b, err = mxj.Map(subject).JsonIndent(c.Prefix, c.Ind, c.Safe)
		} else {
			b, err = mxj.Map(subject).Json(c.Safe)
		}
		if err != nil {
			return failf("encode-error", "map %s: %v", canon(c.Map), err)
		}
		if !json.Valid(b) {
			return failf("invalid-json", "map %s safe=%v indent=%v -> %q", canon(c.Map), c.Safe, c.Indent, b)
		}
		// a result stays valid while other Maps are encoded afterwards
		keep := append([]byte(nil), b...)
		for _, other := range []mxj.Map{{"z": "second"}, {"zzzzzzzzzzzzzzzzzzzzzzzzzzzzzzzzzzzzzzzz": []interface{}{"y", 1.5, map[string]interface{}{"k": "<&>"}}}} {
			other.Json(c.Safe)
			other.Json(!c.Safe)
			other.JsonIndent(c.Prefix, c.Ind, c.Safe)
		}
		if !bytes.Equal(b, keep) {
			return failf("result-overwritten-by-later-call", "the bytes returned by Json changed when other Maps were encoded afterwards: %q -> %q", keep, b)
		}
		back, err := mxj.NewMapJson(b)
		if err != nil {
			return failf("decode-error", "%q: %v", b, err)
		}
		if !reflect.DeepEqual(map[string]interface{}(back), c.Map) {
			return failf("round-trip-mismatch", "json %q\n got  %#v\n want %#v", b, back, c.Map)
		}
		// the reader forms (their own object scanner in front of the decoder) see the same document
		if len(c.Map) > 0 {
			if rb, rerr := mxj.NewMapJsonReader(plainReader{bytes.NewReader(b)}); rerr != nil || !reflect.DeepEqual(map[string]interface{}(rb), c.Map) {
				return failf("round-trip-mismatch", "NewMapJsonReader(%q) = %#v (%v) want %#v", b, rb, rerr, c.Map)
			}
			rb, raw, rerr := mxj.NewMapJsonReaderRaw(bytes.NewReader(append(append([]byte(" \n"), b...), " {}"...)))
			if rerr != nil || !reflect.DeepEqual(map[string]interface{}(rb), c.Map) || !bytes.Equal(stripWS(raw), stripWS(b)) {
				return failf("round-trip-mismatch", "NewMapJsonReaderRaw(%q) = %#v, raw %q (%v) want %#v", b, rb, raw, rerr, c.Map)
			}
			var seen []mxj.Map
			herr := mxj.HandleJsonReader(bytes.NewReader(append(append(append([]byte(nil), b...), '\n'), b...)), func(m mxj.Map) bool { seen = append(seen, m); return true }, func(error) bool { return false })
			if herr != nil || len(seen) != 2 || !reflect.DeepEqual(map[string]interface{}(seen[0]), c.Map) || !reflect.DeepEqual(map[string]interface{}(seen[1]), c.Map) {
				return failf("round-trip-mismatch", "HandleJsonReader on %q twice: %d Maps (%v): %#v", b, len(seen), herr, seen)
			}
		}
		want, lit := countSpecials(c.Map)
		got := bytes.Count(b, []byte("<")) + bytes.Count(b, []byte(">")) + bytes.Count(b, []byte("&"))
		if c.Safe && got != 0 {
			return failf("unsafe-output", "safe encoding contains a literal < > or &: %q", b)
		}
		if !c.Safe && got != want {
			return failf("literal-specials", "default encoding: %d literal specials, data has %d: %q", got, want, b)
		}
		// writer forms and wrappers produce the same bytes
		var w bytes.Buffer
		var raw []byte
		if c.Indent {
			raw, err = mxj.Map(subject).JsonIndentWriterRaw(&w, c.Prefix, c.Ind, c.Safe)
		} else {
			raw, err = mxj.Map(subject).JsonWriterRaw(&w, c.Safe)
		}
		if err != nil || !bytes.Equal(w.Bytes(), b) || !bytes.Equal(raw, b) {
			return failf("writer-mismatch", "writer wrote %q raw %q err %v; Json returned %q", w.Bytes(), raw, err, b)
		}
		(mxj.Map{"later": "call"}).JsonWriterRaw(&bytes.Buffer{}, c.Safe)
		(mxj.Map{"later": []interface{}{"call", 2.5}}).Json(c.Safe)
		if !bytes.Equal(raw, b) {
			return failf("result-overwritten-by-later-call", "the bytes returned by the Raw writer changed after a later encoding: %q, expected %q", raw, b)
		}
		if !c.Indent {
			jb, jerr := j2x.MapToJson(subject, c.Safe)
			if jerr != nil || !bytes.Equal(jb, b) {
				return failf("wrapper-mismatch", "j2x.MapToJson(safe=%v) = %q,%v; Map.Json = %q", c.Safe, jb, jerr, b)
			}
		}
		cp, cerr := mxj.Map(subject).Copy()
		if cerr != nil || !reflect.DeepEqual(map[string]interface{}(cp), c.Map) {
			return failf("copy-mismatch", "Copy of %s = %#v,%v", canon(c.Map), cp, cerr)
		}
		if !reflect.DeepEqual(subject, c.Map) {
			return failf("receiver-modified", "%s became %s", canon(c.Map), canon(subject))
		}
		// with JsonUseNumber numbers keep their text
		mxj.JsonUseNumber = true
		nm, nerr := mxj.NewMapJson(b)
		mxj.JsonUseNumber = false
		if nerr != nil {
			return failf("decode-error", "UseNumber %q: %v", b, nerr)
		}
		var ref map[string]interface{}
		d := json.NewDecoder(bytes.NewReader(b))
		d.UseNumber()
		if d.Decode(&ref) != nil || !reflect.DeepEqual(map[string]interface{}(nm), ref) {
			return failf("use-number-mismatch", "%q: got %#v want %#v", b, nm, ref)
		}
		// a Map holding json.Number values re-encodes to the same text, and Copy keeps the numbers' text too
		mxj.JsonUseNumber = true
		nb, nberr := nm.Json(c.Safe)
		ncp, ncerr := nm.Copy()
		mxj.JsonUseNumber = false
		var cb1, cb2 bytes.Buffer
		json.Compact(&cb1, b)
		json.Compact(&cb2, nb)
		if nberr != nil || !bytes.Equal(cb1.Bytes(), cb2.Bytes()) {
			return failf("use-number-mismatch", "re-encoding the UseNumber Map gives %q (%v), first encoding %q", nb, nberr, b)
		}
		if ncerr != nil || !reflect.DeepEqual(map[string]interface{}(ncp), map[string]interface{}(nm)) {
			return failf("copy-mismatch", "Copy of a Map with json.Number values under JsonUseNumber = %#v,%v want %#v", ncp, ncerr, nm)
		}
		info.ClassIf(c.Safe, "safe encoding")
		info.ClassIf(lit, "literal \\u00xx text in data")
		info.NonTrivial(want > 0 || lit)
		return nil
	}
	// differential decode
	b := c.Input
	mxj.JsonUseNumber = c.UseNumber
	got, gerr := mxj.NewMapJson(b)
	mxj.JsonUseNumber = false
	if len(b) == 0 {
		if gerr != nil || got == nil || len(got) != 0 {
			return failf("empty-input", "NewMapJson(empty) = %#v,%v want empty Map", got, gerr)
		}
		return nil
	}
	newDec := func() *json.Decoder {
		d := json.NewDecoder(bytes.NewReader(b))
		if c.UseNumber {
			d.UseNumber()
		}
		return d
	}
	if b[0] == '[' {
		var first interface{}
		if err := newDec().Decode(&first); err != nil {
			if gerr == nil {
				return failf("accepts-invalid", "%q: encoding/json rejects the array (%v), NewMapJson returned %#v", b, err, got)
			}
			info.Class("array rejected by both")
			return nil
		}
		if !json.Valid(b) {
			info.Unspecified("array followed by junk: no claim (leniency 8)")
			return nil
		}
		if gerr != nil || !reflect.DeepEqual(map[string]interface{}(got), map[string]interface{}{"object": first}) {
			return failf("array-wrap-mismatch", "%q: want {\"object\": %#v} got %#v,%v", b, first, got, gerr)
		}
		info.Class("array accepted")
		info.NonTrivial(true)
		return nil
	}
	var ref map[string]interface{}
	rerr := newDec().Decode(&ref)
	if (rerr == nil) != (gerr == nil) {
		return failf("accept-reject-mismatch", "%q: encoding/json error %v, NewMapJson error %v (value %#v)", b, rerr, gerr, got)
	}
	if rerr == nil && !(len(ref) == 0 && len(got) == 0) && !reflect.DeepEqual(map[string]interface{}(got), ref) {
		return failf("value-mismatch", "%q: got %#v want %#v", b, got, ref)
	}
	info.ClassIf(rerr == nil, "accepted by the reference")
	info.ClassIf(rerr != nil, "rejected by the reference")
	info.ClassIf(!c.Pristine, "mutated input")
	info.NonTrivial(rerr == nil || !c.Pristine)
	return nil
}

func TestC06(t *testing.T) { runProp(t, "C06", genC06, checkC06) }
