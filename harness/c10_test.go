package props

// C10 - UpdateValuesForPath changes only the addressed values and reports how many.

import (
	"fmt"
	"reflect"
	"sort"
	"strconv"
	"strings"
	"testing"

	mxj "github.com/clbanning/mxj/v2"
	"github.com/clbanning/mxj/v2/j2x"
	"github.com/clbanning/mxj/v2/x2j"
	"pgregory.net/rapid"
)

type CaseC10 struct {
	Src     string                 `json:"src"`
	Map     map[string]interface{} `json:"map"`
	Steps   []string               `json:"steps"` // plain / wildcard path
	Key     string                 `json:"key"`
	Conds   []Cond                 `json:"conds,omitempty"`
	NewKind string                 `json:"new_kind"`          // scalar | map | Map | str | str-bool | str-num | existing
	NewVal  interface{}            `json:"new_val,omitempty"` // kind "existing": a scalar that some addressed entry already holds
	Sep     string                 `json:"sep,omitempty"`
	// Pre is an earlier update of the same Map (a history of two calls): the library stores the one
	// value object at every node it addresses, so the Map the second call works on shares structure.
	PreSteps  []string    `json:"pre_steps,omitempty"`
	PreKey    string      `json:"pre_key,omitempty"`
	PreVal    interface{} `json:"pre_val,omitempty"`
	Unrelated uint32      `json:"unrelated_opts,omitempty"`
}

func init() { register("C10", checkC10) }

const sentinel = "\x00NEW"

func boostListParent(t *rapid.T) (map[string]interface{}, []string, string) {
	k1 := rapid.SampledFrom(shapeKeys).Draw(t, "k1")
	k2 := rapid.SampledFrom(shapeKeys).Draw(t, "k2")
	key := rapid.SampledFrom(shapeKeys).Draw(t, "key")
	n := rapid.IntRange(1, 4).Draw(t, "n")
	l := make([]interface{}, n)
	for i := range l {
		switch rapid.IntRange(0, 4).Draw(t, "mk") {
		case 0:
			l[i] = instScalar(t)
		case 1:
			l[i] = map[string]interface{}{key: instScalar(t), "z": instScalar(t)}
		case 2:
			l[i] = map[string]interface{}{k2: map[string]interface{}{key: instScalar(t), "z": instScalar(t)}, key: instScalar(t)}
		case 3:
			l[i] = map[string]interface{}{k2: []interface{}{map[string]interface{}{key: instScalar(t)}, instScalar(t)}}
		default:
			l[i] = map[string]interface{}{k2: instScalar(t), key: []interface{}{instScalar(t), map[string]interface{}{"z": "x"}}}
		}
	}
	root := map[string]interface{}{k1: l, "o": map[string]interface{}{key: instScalar(t)}}
	var steps []string
	switch rapid.IntRange(0, 4).Draw(t, "form") {
	case 0:
		steps = []string{k1, k2}
	case 1:
		steps = []string{k1, key}
	case 2:
		steps = []string{"*", k2}
	case 3:
		steps = []string{k1, "*"}
	default:
		steps = []string{"*", key}
	}
	return root, steps, key
}

// boostHistory: a first update puts one list value into several nodes; the second update addresses one of them.
func boostHistory(t *rapid.T) CaseC10 {
	var c CaseC10
	c.Src = "boost-two-call-history"
	key := rapid.SampledFrom(shapeKeys).Draw(t, "key")
	nodes := []string{"x", "y", "w"}[:rapid.IntRange(2, 3).Draw(t, "nnodes")]
	c.Map = map[string]interface{}{"z": instScalar(t)}
	for _, n := range nodes {
		c.Map[n] = map[string]interface{}{key: instScalar(t), "o": instScalar(t)}
	}
	states := []string{"old", "new", "x"}
	nl := rapid.IntRange(1, 4).Draw(t, "nl")
	l := make([]interface{}, nl)
	for i := range l {
		if rapid.IntRange(0, 4).Draw(t, "scalar") == 0 {
			l[i] = instScalar(t)
		} else {
			l[i] = map[string]interface{}{"state": rapid.SampledFrom(states).Draw(t, "st"), "t": float64(i)}
		}
	}
	c.PreSteps, c.PreKey = []string{"*", key}, key
	if rapid.Bool().Draw(t, "prelist") {
		c.PreVal = l
	} else {
		c.PreVal = map[string]interface{}{key: l, "state": rapid.SampledFrom(states).Draw(t, "st2")}
	}
	switch rapid.IntRange(0, 2).Draw(t, "mainpath") {
	case 0:
		c.Steps = []string{rapid.SampledFrom(nodes).Draw(t, "node"), key}
	case 1:
		c.Steps = []string{"*", key}
	default:
		c.Steps = []string{rapid.SampledFrom(nodes).Draw(t, "node"), key, key}
	}
	c.Key = key
	if rapid.IntRange(0, 3).Draw(t, "form2") == 0 {
		c.Key = "t"
	}
	if rapid.IntRange(0, 4).Draw(t, "nocond") > 0 {
		c.Conds = []Cond{{Key: "state", Val: rapid.SampledFrom(states).Draw(t, "cst"), Neg: rapid.IntRange(0, 4).Draw(t, "neg") == 0}}
	}
	c.NewKind = rapid.SampledFrom([]string{"scalar", "scalar", "map"}).Draw(t, "newkind")
	c.Sep = ":"
	return c
}

func genC10(t *rapid.T) CaseC10 {
	var c CaseC10
	src := rapid.IntRange(0, 9).Draw(t, "src")
	// boostHistory (two-call histories) is deliberately NOT drawn: after a first call that stores one container
	// at several nodes the Map shares structure, and then even the unchanged library shows writes at positions the
	// second call does not address (form 2 writes into the shared member map). C10 quantifies over single calls on
	// tree-shaped Maps; see DESIGN.md "seeded change C10-a". Saved cases with pre_steps can still be replayed.
	if src == 0 {
		c.Src = "boost-list-parent"
		c.Map, c.Steps, c.Key = boostListParent(t)
	} else if src == 1 {
		// a list that is a direct member of a list (JSON shape only)
		c.Src = "boost-list-in-list"
		var st []Step
		c.Map, st, c.Key = boostLIL(t)
		c.Steps = stepNames(st)
		if len(c.Steps) > 1 && rapid.IntRange(0, 2).Draw(t, "wild") == 0 {
			c.Steps[rapid.IntRange(1, len(c.Steps)-1).Draw(t, "wildat")] = "*"
		}
		switch rapid.IntRange(0, 2).Draw(t, "lilkey") {
		case 0:
			if last := c.Steps[len(c.Steps)-1]; last != "*" {
				c.Key = last
			}
		case 1:
			c.Key = rapid.SampledFrom(shapeKeys).Draw(t, "ukey")
		}
	} else if src == 3 && rapid.Bool().Draw(t, "deeplil") {
		c.Src = "boost-deep-list-in-list"
		var st []Step
		c.Map, st, c.Key = boostDeepLIL(t)
		c.Steps = stepNames(st)
	} else if src == 2 {
		// the empty string as a key and as a path segment
		c.Src = "boost-empty-key"
		var st []Step
		c.Map, st, c.Key = boostEmptyKey(t)
		c.Steps = stepNames(st)
		if rapid.IntRange(0, 2).Draw(t, "form2") == 0 {
			c.Key = rapid.SampledFrom(shapeKeys).Draw(t, "ukey")
		}
	} else {
		c.Src = "shape"
		sh := genRootShape(t, false)
		c.Map = instantiate(t, sh).(map[string]interface{})
		c.Steps = stepNames(genShapePath(t, sh, false))
		last := c.Steps[len(c.Steps)-1]
		if last != "*" && rapid.Bool().Draw(t, "form1") {
			c.Key = last
		} else {
			c.Key = rapid.SampledFrom(shapeKeys).Draw(t, "ukey")
		}
	}
	if rapid.IntRange(0, 7).Draw(t, "wrapdeep") == 0 && len(c.Steps) > 0 {
		var pre []Step
		c.Map, pre = wrapDeepPrefix(t, c.Map)
		c.Steps = append(stepNames(pre), c.Steps...)
		c.Src += "+deep"
	}
	if rapid.Bool().Draw(t, "withconds") {
		// conditions drawn from the maps the path yields
		var st []Step
		for _, s := range c.Steps {
			st = append(st, Step{s, -1})
		}
		cands := refEval(c.Map, st)
		if len(st) > 1 {
			cands = append(cands, refEval(c.Map, st[:len(st)-1])...)
		}
		c.Conds = genCondsFrom(t, 1, 2, cands)
	}
	c.NewKind = rapid.SampledFrom([]string{"scalar", "scalar", "map", "Map", "str", "str-bool", "str-num", "existing"}).Draw(t, "newkind")
	c.Sep = rapid.SampledFrom([]string{":", ":", "|", "::", "=>", "§", "\t", " | "}).Draw(t, "sep")
	c.Unrelated = genUnrelated(t)
	if c.NewKind == "existing" {
		// the new value equals what an entry under the key already holds
		var held []interface{}
		refValuesForKey(c.Map, c.Key, &held)
		var scalars []interface{}
		for _, h := range held {
			switch h.(type) {
			case string, float64, bool:
				scalars = append(scalars, h)
			}
		}
		if len(scalars) == 0 {
			c.NewKind = "scalar"
		} else {
			c.NewVal = scalars[rapid.IntRange(0, len(scalars)-1).Draw(t, "heldidx")]
		}
	}
	return c
}

// ---- reference: mandatory / optional write positions (positions are /a/2/b) ----

type posSets struct{ mand, opt map[string]bool }

type located struct {
	v   interface{}
	pos string
}

func stepLoc(cur []located, k string) []located {
	var out []located
	for _, lv := range cur {
		switch x := lv.v.(type) {
		case map[string]interface{}:
			for kk, vv := range x {
				if k == "*" || kk == k {
					out = append(out, located{vv, lv.pos + "/" + kk})
				}
			}
		case []interface{}:
			out = append(out, stepLocList(x, lv.pos, k)...)
		}
	}
	return out
}

// stepLocList mirrors stepList: a list stands for its members; for a plain key also when the member is a list.
func stepLocList(x []interface{}, pos string, k string) []located {
	var out []located
	for i, mem := range x {
		p := fmt.Sprintf("%s/%d", pos, i)
		switch mm := mem.(type) {
		case map[string]interface{}:
			for kk, vv := range mm {
				if k == "*" || kk == k {
					out = append(out, located{vv, p + "/" + kk})
				}
			}
		case []interface{}:
			if k == "*" {
				out = append(out, located{mem, p})
			} else {
				out = append(out, stepLocList(mm, p, k)...)
			}
		default:
			if k == "*" {
				out = append(out, located{mem, p})
			}
		}
	}
	return out
}

func refUpdateSets(root map[string]interface{}, key string, steps []string, cs []Cond, info *Info) posSets {
	ps := posSets{map[string]bool{}, map[string]bool{}}
	put := func(pos string, c int, optional bool, why string) {
		if c == 0 {
			return
		}
		if c == -1 || optional {
			ps.opt[pos] = true
			if c == -1 {
				info.Unspecified("sub-key condition unspecified (leniency 2)")
			} else {
				info.Unspecified(why)
			}
		} else {
			ps.mand[pos] = true
		}
	}
	cur := []located{{root, ""}}
	for _, s := range steps[:len(steps)-1] {
		cur = stepLoc(cur, s)
	}
	last := steps[len(steps)-1]
	atMap := func(m map[string]interface{}, mpos string, k0 string, wildOnList bool, viaList bool) {
		endVal, present := m[k0]
		if key == k0 {
			c := condsHold(m, cs)
			if !present {
				put(mpos+"/"+k0, c, true, "creating a missing last key (leniency 3)")
				return
			}
			if ev, ok := endVal.([]interface{}); ok && c != 1 {
				if c == -1 {
					ps.opt[mpos+"/"+k0] = true
				}
				for i, mem := range ev {
					put(fmt.Sprintf("%s/%s/%d", mpos, k0, i), condsHold(mem, cs), c == -1 || viaList, "member-level replacement below a list parent (leniency 4)")
				}
				return
			}
			put(mpos+"/"+k0, c, false, "")
			return
		}
		if !present {
			return
		}
		switch ev := endVal.(type) {
		case map[string]interface{}:
			if _, ok := ev[key]; ok {
				put(mpos+"/"+k0+"/"+key, condsHold(ev, cs), wildOnList, "form-2 target below a list parent with '*' (leniency 4)")
			}
		case []interface{}:
			for i, mem := range ev {
				if mm, ok := mem.(map[string]interface{}); ok {
					if _, ok := mm[key]; ok {
						put(fmt.Sprintf("%s/%s/%d/%s", mpos, k0, i, key), condsHold(mm, cs), wildOnList, "form-2 target below a list parent with '*' (leniency 4)")
					}
				}
				if inner, ok := mem.([]interface{}); ok {
					// the path yields the inner list, not a node with a key entry; the recursive reading would descend
					for _, l := range stepLocList(inner, fmt.Sprintf("%s/%s/%d", mpos, k0, i), key) {
						ps.opt[l.pos] = true
						info.Unspecified("form-2 target inside a list in a list (leniency 15)")
					}
				}
			}
		}
	}
	var atList func(pm []interface{}, pos string)
	atList = func(pm []interface{}, pos string) {
		for i, mem := range pm {
			mpos := fmt.Sprintf("%s/%d", pos, i)
			if inner, ok := mem.([]interface{}); ok {
				if last != "*" {
					atList(inner, mpos) // a list in a list stands for its members
				} else {
					// "*" selects the inner list as a value; the key entries of its map members may or may not be written
					for j, im := range inner {
						if mm, ok := im.(map[string]interface{}); ok {
							if _, ok := mm[key]; ok {
								put(fmt.Sprintf("%s/%d/%s", mpos, j, key), condsHold(mm, cs), true, "'*' as the last key over a list in a list (leniency 15)")
							}
						}
					}
				}
				continue
			}
			mm, ok := mem.(map[string]interface{})
			if !ok {
				continue
			}
			if last == "*" {
				for k := range mm {
					if k == key {
						atMap(mm, mpos, k, false, true)
					} else {
						atMap(mm, mpos, k, true, true)
					}
				}
			} else {
				atMap(mm, mpos, last, false, true)
			}
		}
	}
	for _, p := range cur {
		switch pm := p.v.(type) {
		case map[string]interface{}:
			if last == "*" {
				for k := range pm {
					atMap(pm, p.pos, k, false, false)
				}
			} else {
				atMap(pm, p.pos, last, false, false)
			}
		case []interface{}:
			atList(pm, p.pos)
		}
	}
	return ps
}

// diffPositions: positions that now hold newVal (and did not before); every other change goes to bad.
func diffPositions(before, after interface{}, pos string, newVal interface{}, out map[string]bool, bad *[]string) {
	if reflect.DeepEqual(after, newVal) && !reflect.DeepEqual(before, newVal) {
		out[pos] = true
		return
	}
	switch a := after.(type) {
	case map[string]interface{}:
		b, ok := before.(map[string]interface{})
		if !ok {
			*bad = append(*bad, pos)
			return
		}
		for k, av := range a {
			bv, ok := b[k]
			if !ok {
				if reflect.DeepEqual(av, newVal) {
					out[pos+"/"+k] = true
				} else {
					*bad = append(*bad, pos+"/"+k+"(added)")
				}
				continue
			}
			diffPositions(bv, av, pos+"/"+k, newVal, out, bad)
		}
		for k := range b {
			if _, ok := a[k]; !ok {
				*bad = append(*bad, pos+"/"+k+"(removed)")
			}
		}
	case []interface{}:
		b, ok := before.([]interface{})
		if !ok || len(b) != len(a) {
			*bad = append(*bad, pos)
			return
		}
		for i := range a {
			diffPositions(b[i], a[i], fmt.Sprintf("%s/%d", pos, i), newVal, out, bad)
		}
	default:
		if !reflect.DeepEqual(before, after) {
			*bad = append(*bad, pos)
		}
	}
}

func checkC10(c CaseC10, info *Info) *Failure {
	if c.Map == nil || len(c.Steps) == 0 || c.Key == "" {
		info.Skip = "empty case"
		return nil
	}
	info.ClassIf(hasListInList(c.Map), "list in a list in the Map")
	defer resetOptions()
	applyUnrelatedOptions(c.Unrelated)
	info.ClassIf(c.Unrelated != 0, "unrelated options switched on")
	sep := c.Sep
	if sep == "" {
		sep = ":"
	}
	if sep != ":" {
		mxj.SetFieldSeparator(sep)
		bystanders()
	}
	path := strings.Join(c.Steps, ".")
	sp := specs(c.Conds, sep)
	if len(sp) > 0 && len(path)%2 == 0 {
		// the very same argument strings were parsed a moment ago while ANOTHER separator was in force (on a scratch copy)
		other := "|"
		if sep == "|" {
			other = "#"
		}
		mxj.SetFieldSeparator(other)
		mxj.Map(copyMap(c.Map)).UpdateValuesForPath(map[string]interface{}{c.Key: "x"}, path, sp...)
		mxj.Map(copyMap(c.Map)).ValuesForPath(path, sp...)
		mxj.SetFieldSeparator(sep)
	}
	if c.PreKey != "" && len(c.PreSteps) > 0 {
		// first call of the history, run on the subject itself so that whatever it shares stays shared
		first := copyMap(c.Map)
		if _, err := mxj.Map(first).UpdateValuesForPath(map[string]interface{}{c.PreKey: c.PreVal}, strings.Join(c.PreSteps, ".")); err != nil {
			return failf("error", "first call of the history: %v", err)
		}
		return checkC10on(c, first, sep, path, sp, info)
	}
	return checkC10on(c, copyMap(c.Map), sep, path, sp, info)
}

// checkC10on checks one update of 'subject' (which may share structure internally; all oracles work on deep copies).
func checkC10on(c CaseC10, subject map[string]interface{}, sep, path string, sp []string, info *Info) *Failure {
	start := copyMap(subject)
	js := canon(start)
	info.Class("src:" + c.Src)
	info.Class("new value form:" + c.NewKind)

	if strings.HasPrefix(c.NewKind, "str") && !strings.Contains(c.Key, sep) && !strings.Contains(c.Key, strings.TrimSpace(sep)+" ") {
		// the "key:value[:type]" string form must behave exactly like the single-entry map form (for a key the separator does not split)
		var val interface{}
		var spec string
		switch c.NewKind {
		case "str":
			val, spec = "NEW value", c.Key+sep+"NEW value"
		case "str-bool":
			val, spec = true, c.Key+sep+"true"+sep+"bool"
		default:
			val, spec = 42.5, c.Key+sep+"42.5"+sep+"num"
		}
		m1, m2 := copyMap(start), copyMap(start)
		n1, e1 := mxj.Map(m1).UpdateValuesForPath(spec, path, sp...)
		n2, e2 := mxj.Map(m2).UpdateValuesForPath(map[string]interface{}{c.Key: val}, path, sp...)
		if n1 != n2 || (e1 == nil) != (e2 == nil) || !reflect.DeepEqual(m1, m2) {
			return failf("string-form-differs", "map %s path %q sub-keys %q: string form %q -> %d,%v %s; map form -> %d,%v %s", js, path, sp, spec, n1, e1, canon(m1), n2, e2, canon(m2))
		}
		info.NonTrivial(n1 > 0)
		return nil
	}

	if c.NewKind == "existing" {
		return checkC10existing(c, subject, start, path, sp, info)
	}
	var newVal interface{} = sentinel
	if c.NewKind != "scalar" {
		// a container value, with the empty and null members that a JSON value may have
		newVal = map[string]interface{}{"__new": sentinel, "e": []interface{}{}, "m": map[string]interface{}{}, "n": nil, "l": []interface{}{[]interface{}{}, "x"}}
	}
	before := copyMap(start)
	ps := refUpdateSets(copyMap(start), c.Key, c.Steps, c.Conds, info)
	var arg interface{} = map[string]interface{}{c.Key: deepCopy(newVal)}
	if c.NewKind == "Map" {
		arg = mxj.Map{c.Key: deepCopy(newVal)}
	}
	gotCnt, err := mxj.Map(subject).UpdateValuesForPath(arg, path, sp...)
	if err != nil {
		return failf("error", "map %s path %q key %q sub-keys %q: %v", js, path, c.Key, sp, err)
	}
	R := map[string]bool{}
	var bad []string
	diffPositions(before, subject, "", newVal, R, &bad)
	fail := ""
	if len(bad) > 0 {
		sort.Strings(bad)
		fail = fmt.Sprintf("frame violated at %v;", bad)
	}
	for _, p := range setKeys(ps.mand) {
		if !R[p] {
			fail += fmt.Sprintf(" addressed value not replaced at %s;", p)
		}
	}
	for _, p := range setKeys(R) {
		if !ps.mand[p] && !ps.opt[p] {
			fail += fmt.Sprintf(" unaddressed write at %s;", p)
		}
	}
	if gotCnt != len(R) {
		fail += fmt.Sprintf(" count %d != values replaced %d;", gotCnt, len(R))
	}
	if gotCnt == 0 && !reflect.DeepEqual(before, subject) {
		fail += " count 0 but the Map changed;"
	}
	kind := "update-mismatch"
	if fail == "" && c.Key == c.Steps[len(c.Steps)-1] && len(c.Conds) == 0 {
		vs, verr := mxj.Map(subject).ValuesForPath(path)
		ok := verr == nil && len(vs) == gotCnt
		for _, v := range vs {
			ok = ok && reflect.DeepEqual(v, newVal)
		}
		if !ok {
			fail = fmt.Sprintf(" ValuesForPath(%q) afterwards = %s, want %d copies of the new value;", path, canon(vs), gotCnt)
			kind = "update-query-disagree"
		}
		info.Class("form 1 without sub-keys (query clause)")
	}
	if fail != "" {
		return failf(kind, "%s\nbefore %s\npath %q key %q sub-keys %q\nafter  %s count %d\nmandatory %v optional %v", fail, js, path, c.Key, sp, canon(subject), gotCnt, setKeys(ps.mand), setKeys(ps.opt))
	}
	// wrappers on the encoded document agree with the core
	if c.NewKind == "scalar" && sep == ":" {
		jb, _ := mxj.Map(before).Json()
		out, werr := j2x.JsonUpdateValsForPath(jb, map[string]interface{}{c.Key: "NEWVAL"}, path, sp...)
		ref := copyMap(before)
		_, rerr := mxj.Map(ref).UpdateValuesForPath(map[string]interface{}{c.Key: "NEWVAL"}, path, sp...)
		if (werr == nil) != (rerr == nil) {
			return failf("wrapper-mismatch", "j2x.JsonUpdateValsForPath error %v, core error %v", werr, rerr)
		}
		if werr == nil {
			back, derr := mxj.NewMapJson(out)
			if derr != nil || !reflect.DeepEqual(map[string]interface{}(back), ref) {
				return failf("wrapper-mismatch", "j2x.JsonUpdateValsForPath(%s, %q) = %s; core gives %s", jb, path, out, canon(ref))
			}
		}
		if !hasEmptyKeyOrOdd(before) && len(before) == 1 && !isListVal(before) {
			if xb, xerr := mxj.Map(before).Xml(); xerr == nil {
				if xm, derr := mxj.NewMapXml(xb); derr == nil {
					xout, uerr := x2j.XmlUpdateValsForPath(xb, map[string]interface{}{c.Key: "NEWVAL"}, path, sp...)
					_, cerr := xm.UpdateValuesForPath(map[string]interface{}{c.Key: "NEWVAL"}, path, sp...)
					want, encErr := xm.Xml()
					if cerr == nil {
						cerr = encErr // the wrapper is decode, update, encode: an error of the last step is the composition's error too
					}
					// the returned document must stand for the Map the core call leaves (C10 speaks about the Map; that the
					// wrapper's text is the core encoder's text is C20's clause, checked there byte for byte)
					same := (uerr == nil) == (cerr == nil)
					if same && uerr == nil {
						gm, gerr := mxj.NewMapXml(xout)
						wm, werr2 := mxj.NewMapXml(want)
						// either reading: the text decodes to the updated Map itself, or to what the core encoder's text decodes to
						// (the two differ when decoding adds entries, e.g. IncludeTagSeqNum)
						same = (gerr == nil && reflect.DeepEqual(gm, xm)) || ((gerr == nil) == (werr2 == nil) && (gerr != nil || reflect.DeepEqual(gm, wm)))
					}
					if !same {
						return failf("wrapper-mismatch", "x2j.XmlUpdateValsForPath(%s, %q) = %s,%v; core gives %s,%v", xb, path, xout, uerr, want, cerr)
					}
				}
			}
		}
	}
	// classes
	others := 0
	var cnt func(v interface{}, pos string)
	cnt = func(v interface{}, pos string) {
		switch x := v.(type) {
		case map[string]interface{}:
			for k, vv := range x {
				if k == c.Key && !ps.mand[pos+"/"+k] && !ps.opt[pos+"/"+k] {
					others++
				}
				cnt(vv, pos+"/"+k)
			}
		case []interface{}:
			for i, vv := range x {
				cnt(vv, pos+"/"+strconv.Itoa(i))
			}
		}
	}
	cnt(before, "")
	listParent := false
	for p := range ps.mand {
		parts := strings.Split(p, "/")
		if len(parts) >= 3 {
			if _, e := strconv.Atoi(parts[len(parts)-2]); e == nil {
				listParent = true
			}
		}
	}
	info.ClassIf(len(ps.mand) > 0, "mandatory target present")
	info.ClassIf(len(ps.opt) > 0, "optional (unspecified) positions present")
	info.ClassIf(listParent, "list is the parent of the last step")
	info.ClassIf(len(c.Conds) > 0, "with sub-keys")
	info.ClassIf(len(ps.mand) > 0 && others > 0, "mandatory target and another entry under the key that must not change")
	info.NonTrivial(len(ps.mand) > 0 && others > 0)
	return nil
}

// valueAt follows a position like /a/2/b.
func valueAt(root interface{}, pos string) (interface{}, bool) {
	cur := root
	for _, seg := range strings.Split(strings.TrimPrefix(pos, "/"), "/") {
		switch x := cur.(type) {
		case map[string]interface{}:
			v, ok := x[seg]
			if !ok {
				return nil, false
			}
			cur = v
		case []interface{}:
			i, err := strconv.Atoi(seg)
			if err != nil || i < 0 || i >= len(x) {
				return nil, false
			}
			cur = x[i]
		default:
			return nil, false
		}
	}
	return cur, true
}

// checkC10existing: the new value is one that addressed entries may already hold, so a structural diff cannot
// count the replacements; the count is bounded by the reference sets and tied to the query clause instead.
func checkC10existing(c CaseC10, subject, start map[string]interface{}, path string, sp []string, info *Info) *Failure {
	newVal := c.NewVal
	ps := refUpdateSets(copyMap(start), c.Key, c.Steps, c.Conds, info)
	gotCnt, err := mxj.Map(subject).UpdateValuesForPath(map[string]interface{}{c.Key: newVal}, path, sp...)
	if err != nil {
		return failf("error", "map %s path %q key %q: %v", canon(start), path, c.Key, err)
	}
	R := map[string]bool{}
	var bad []string
	diffPositions(start, subject, "", newVal, R, &bad)
	fail := ""
	if len(bad) > 0 {
		sort.Strings(bad)
		fail = fmt.Sprintf("frame violated at %v;", bad)
	}
	for _, p := range setKeys(R) {
		if !ps.mand[p] && !ps.opt[p] {
			fail += fmt.Sprintf(" unaddressed write at %s;", p)
		}
	}
	for _, p := range setKeys(ps.mand) {
		if v, ok := valueAt(subject, p); !ok || !reflect.DeepEqual(v, newVal) {
			fail += fmt.Sprintf(" addressed value at %s is %s, not the new value;", p, canon(v))
		}
	}
	if gotCnt < len(ps.mand) || gotCnt > len(ps.mand)+len(ps.opt) {
		fail += fmt.Sprintf(" count %d outside [%d,%d] (addressed values);", gotCnt, len(ps.mand), len(ps.mand)+len(ps.opt))
	}
	if fail == "" && c.Key == c.Steps[len(c.Steps)-1] && len(c.Conds) == 0 {
		vs, verr := mxj.Map(subject).ValuesForPath(path)
		ok := verr == nil && len(vs) == gotCnt
		for _, v := range vs {
			ok = ok && reflect.DeepEqual(v, newVal)
		}
		if !ok {
			fail = fmt.Sprintf(" ValuesForPath(%q) afterwards = %s, want %d copies of %s;", path, canon(vs), gotCnt, canon(newVal))
		}
	}
	if fail != "" {
		return failf("update-mismatch", "%s\nbefore %s\npath %q key %q new value %s (already present) sub-keys %q\nafter  %s count %d\nmandatory %v optional %v", fail, canon(start), path, c.Key, canon(newVal), sp, canon(subject), gotCnt, setKeys(ps.mand), setKeys(ps.opt))
	}
	already := 0
	for p := range ps.mand {
		if v, ok := valueAt(start, p); ok && reflect.DeepEqual(v, newVal) {
			already++
		}
	}
	info.ClassIf(already > 0, "an addressed entry already held the new value")
	info.NonTrivial(already > 0 && len(ps.mand) > 0)
	return nil
}

func TestC10(t *testing.T) { runProp(t, "C10", genC10, checkC10) }
