package props

// C05 - special characters survive encoding; invalid output is an error, never silent.

import (
	"bytes"
	"encoding/xml"
	"io"
	"reflect"
	"strings"
	"testing"

	mxj "github.com/clbanning/mxj/v2"
	"pgregory.net/rapid"
)

type SwitchCall struct {
	Decoder bool `json:"decoder"` // XMLEscapeCharsDecoder (else XMLEscapeChars)
	Toggle  bool `json:"toggle"`  // argument-less form
	Value   bool `json:"value"`
}

type CaseC05 struct {
	Clause   string                 `json:"clause"` // a | b | c | d
	Text     string                 `json:"text,omitempty"`
	Attr     string                 `json:"attr,omitempty"`
	Mixed    string                 `json:"mixed,omitempty"`
	Enc      int                    `json:"enc"` // 0 Map.Xml 1 Map.XmlIndent 2 MapSeq.Xml 3 MapSeq.XmlIndent
	Doc      *XElem                 `json:"doc,omitempty"`
	Calls    []SwitchCall           `json:"calls,omitempty"`
	Value    map[string]interface{} `json:"value,omitempty"`          // clause e: any JSON-shaped Map, any root shape
	Root     string                 `json:"root,omitempty"`           // clause e: explicit root tag ("" = none)
	Sloppy   bool                   `json:"sloppy_decoder,omitempty"` // clause c: mxj.CustomDecoder is a non-strict decoder (an option for READING sloppy XML)
	AttrName string                 `json:"attr_name,omitempty"`      // clauses a, c: the attribute's name ("" = a); names with a meaning in XML (xmlns:q, xmlns, href, xml:base) are attributes like any other
	DecOpts  uint32                 `json:"dec_opts,omitempty"`       // clause e: decoder-only options in force (see applyUnrelatedOptions)
	Skip     int                    `json:"skip,omitempty"`           // clause b: a skip-tag function is set (1: true for every key, 2: for keys of even length); it only concerns casting
}

func init() { register("C05", checkC05) }

var escAlphabet = []string{"&", "<", ">", "\"", "'", "&amp;", "&lt;", "&quot;", "&#x41;", "&#65;", "]]>", "<![CDATA[", "a", "b", " ", "\t", "\n", "é", "&amp;amp;", "--", "<!--", "?>", "<?", "&", "<",
	"\U0001F600", "\U00010000", "\U00010FFF", "\U00011000", "\U0010FFFD", "\u2028", "\ufffd", "\ufeff", "e\u0301", "&amp;lt;", "&amp;amp;lt;"}

// denseSpecials: the five special characters only, quote-heavy, 7 to 70 of them - the values whose escaped form is several
// times their length (size computations, fixed scratch buffers and "short value" thresholds are exact or wrong here)
var denseSpecials = []string{"\"", "'", "\"", "'", "&", "<", ">"}

func genEscStr(t *rapid.T, label string) string {
	var sb strings.Builder
	if rapid.IntRange(0, 11).Draw(t, label+"dense") == 0 {
		n := rapid.IntRange(7, 70).Draw(t, label+"dn")
		for i := 0; i < n; i++ {
			sb.WriteString(rapid.SampledFrom(denseSpecials).Draw(t, label))
		}
		if rapid.Bool().Draw(t, label+"tail") {
			sb.WriteString("abc")
		}
		return sb.String()
	}
	n := rapid.IntRange(1, 6).Draw(t, label+"n")
	for i := 0; i < n; i++ {
		sb.WriteString(rapid.SampledFrom(escAlphabet).Draw(t, label))
	}
	return sb.String()
}

var mildAlphabet = []string{"a", "b", " ", "&amp;", "&lt;", "&gt;", "&quot;", "&#x41;", "&#65;", "é", "x", "]]", "--", "1", "\U0001F600", "\U00011000", "\U0010FFFD", "\u2028", "&amp;lt;", "%", "%d", "%%"}

func genMildStr(t *rapid.T, label string) string {
	n := rapid.IntRange(1, 5).Draw(t, label+"n")
	var sb strings.Builder
	for i := 0; i < n; i++ {
		sb.WriteString(rapid.SampledFrom(mildAlphabet).Draw(t, label))
	}
	return sb.String()
}

func genC05(t *rapid.T) CaseC05 {
	c := CaseC05{Clause: rapid.SampledFrom([]string{"a", "a", "b", "c", "c", "d", "e", "e"}).Draw(t, "clause")}
	c.Enc = rapid.IntRange(0, 3).Draw(t, "enc")
	switch c.Clause {
	case "a", "c":
		c.Text, c.Attr, c.Mixed = genEscStr(t, "text"), genEscStr(t, "attr"), genEscStr(t, "mixed")
		if rapid.IntRange(0, 7).Draw(t, "wkattr") == 3 {
			c.AttrName = rapid.SampledFrom([]string{"xmlns:q", "xmlns:q", "xmlns", "href", "xml:base", "type", "id"}).Draw(t, "attrname")
			if rapid.Bool().Draw(t, "urlvalue") {
				c.Attr = "http://example.com/ns?a=1&b=2" + c.Attr // a value with a scheme in front, a namespace name or link as found in the wild
			}
		}
		if c.Clause == "c" {
			c.Sloppy = rapid.IntRange(0, 3).Draw(t, "sloppy") == 0
		}
		if c.Clause == "c" && rapid.Bool().Draw(t, "mild") {
			// strings that are valid XML content when written unescaped
			c.Text, c.Attr, c.Mixed = genMildStr(t, "text"), genMildStr(t, "attr"), genMildStr(t, "mixed")
			if rapid.Bool().Draw(t, "onebad") {
				c.Text += genEscStr(t, "bad")
			}
		}
	case "never":
	case "b":
		g := XGen{Opts: Opts{AttrPrefix: "-", KeyPrefix: "#", DecEscape: true}, MixedText: c.Enc < 2, Namespaces: c.Enc >= 2, TextGen: genEscStr}
		c.Doc = g.Elem(t, rapid.IntRange(1, 3).Draw(t, "depth"))
		c.Skip = rapid.SampledFrom([]int{0, 0, 1, 2}).Draw(t, "skipfn")
	case "e":
		gen := genMildStr
		if rapid.Bool().Draw(t, "hostile") {
			gen = func(t *rapid.T, l string) string {
				if rapid.IntRange(0, 3).Draw(t, l+"bad") == 0 {
					return genEscStr(t, l)
				}
				return genMildStr(t, l)
			}
		}
		g := VGen{Keys: append([]string{"stream", "stream"}, xmlKeyNames...), Attrs: true, Nulls: true, StringGen: gen}
		c.Value = g.Map(t, 2)
		c.DecOpts = genUnrelated(t)
		if rapid.IntRange(0, 2).Draw(t, "singlelist") == 0 {
			// the root shapes a decoded document never has: one key holding a list
			k := rapid.SampledFrom(xmlKeyNames).Draw(t, "rk")
			n := rapid.IntRange(1, 3).Draw(t, "rn")
			l := make([]interface{}, n)
			for i := range l {
				if rapid.Bool().Draw(t, "rmap") {
					l[i] = g.Map(t, 1)
				} else {
					l[i] = g.Scalar(t)
				}
			}
			c.Value = map[string]interface{}{k: l}
		}
		c.Root = rapid.SampledFrom([]string{"", "", "top"}).Draw(t, "root")
		c.Enc = rapid.IntRange(0, 1).Draw(t, "menc")
	case "d":
		n := rapid.IntRange(1, 5).Draw(t, "ncalls")
		for i := 0; i < n; i++ {
			c.Calls = append(c.Calls, SwitchCall{Decoder: rapid.Bool().Draw(t, "decoder"), Toggle: rapid.IntRange(0, 3).Draw(t, "toggle") == 0, Value: rapid.Bool().Draw(t, "value")})
		}
	}
	return c
}

// tokenizes: the standard tokenizer reads the whole output without an error (what XmlCheckIsValid promises).
func tokenizes(b []byte) error {
	d := xml.NewDecoder(bytes.NewReader(b))
	for {
		_, err := d.Token()
		if err == io.EOF {
			return nil
		}
		if err != nil {
			return err
		}
	}
}

func hasSpecial(s string) bool { return strings.ContainsAny(s, "&<>\"'") }

// values builds the Map and the MapSeq of clauses a and c.
func (c CaseC05) attrName() string {
	if c.AttrName == "" {
		return "a"
	}
	return c.AttrName
}

func (c CaseC05) values() (mxj.Map, mxj.MapSeq) {
	m := mxj.Map{"r": map[string]interface{}{"-" + c.attrName(): c.Attr, "e": c.Text, "m": map[string]interface{}{"#text": c.Mixed, "c": "x"}}}
	ms := mxj.MapSeq{"r": map[string]interface{}{
		"#attr": map[string]interface{}{c.attrName(): map[string]interface{}{"#text": c.Attr, "#seq": 0}},
		"e":     map[string]interface{}{"#text": c.Text, "#seq": 0},
		"m":     map[string]interface{}{"#seq": 1, "#text": c.Mixed, "c": map[string]interface{}{"#text": "x", "#seq": 0}},
	}}
	return m, ms
}

// c05vals holds the values of the case being checked: every encode() of one case encodes the SAME Map / MapSeq object,
// as a caller does who encodes a value twice (an encoder that rewrites its receiver shows on the second call).
var c05vals struct {
	key string
	m   mxj.Map
	ms  mxj.MapSeq
}

func (c CaseC05) encode() ([]byte, error) {
	key := c.Clause + "\x00" + c.Attr + "\x00" + c.Text + "\x00" + c.Mixed
	if c05vals.key != key || c05vals.m == nil {
		c05vals.key = key
		c05vals.m, c05vals.ms = c.values()
	}
	m, ms := c05vals.m, c05vals.ms
	switch c.Enc {
	case 0:
		return m.Xml()
	case 1:
		return m.XmlIndent("", "  ")
	case 2:
		return ms.Xml()
	}
	return ms.XmlIndent("", "  ")
}

func checkC05(c CaseC05, info *Info) *Failure {
	defer resetOptions()
	c05vals.key, c05vals.m, c05vals.ms = "", nil, nil
	defer func() {
		c05vals.key, c05vals.m, c05vals.ms = "", nil, nil
	}()
	info.Class("clause " + c.Clause)
	for _, v := range []string{c.Text, c.Attr, c.Mixed} {
		if len(v) >= 20 && len(v) <= 80 && strings.Count(v, "\"")+strings.Count(v, "'") >= len(v)/2 {
			info.Class("a value of 20-80 bytes, at least half of them quotes")
			break
		}
	}
	switch c.Clause {
	case "a":
		mxj.XMLEscapeChars(true)
		bystanders()
		x, err := c.encode()
		if err != nil {
			return failf("encode-error", "enc %d: %v", c.Enc, err)
		}
		keepX := append([]byte(nil), x...)
		mxj.XmlCheckIsValid(true)
		x2, err2 := c.encode()
		disturb()
		if !bytes.Equal(x, keepX) {
			return failf("result-overwritten-by-later-call", "enc %d: the encoder's result changed when other values were encoded afterwards", c.Enc)
		}
		if err2 != nil || !bytes.Equal(x, x2) {
			return failf("validity-check-changes-output", "enc %d: second encoding of the same value (validity check on) %q,%v; first %q", c.Enc, x2, err2, x)
		}
		if fm, fms := c.values(); !reflect.DeepEqual(map[string]interface{}(fm), map[string]interface{}(c05vals.m)) || !reflect.DeepEqual(map[string]interface{}(fms), map[string]interface{}(c05vals.ms)) {
			return failf("receiver-modified", "enc %d: encoding changed the value it encodes: %#v / %#v", c.Enc, c05vals.m, c05vals.ms)
		}
		if werr := wellFormedSingleRoot(x); werr != nil {
			return failf("not-well-formed", "enc %d: %q: %v", c.Enc, x, werr)
		}
		resetOptions()
		back, err := mxj.NewMapXml(x)
		if err != nil {
			return failf("decode-error", "%q: %v", x, err)
		}
		trim := func(s string) string { return strings.Trim(s, "\t\r\n ") }
		r, _ := back["r"].(map[string]interface{})
		decodedAttr := c.attrName()
		if i := strings.Index(decodedAttr, ":"); i >= 0 {
			decodedAttr = decodedAttr[i+1:] // the Map decoder keys an attribute by its local name
		}
		gotA, _ := r["-"+decodedAttr].(string)
		gotE, _ := r["e"].(string)
		mm, _ := r["m"].(map[string]interface{})
		gotM, _ := mm["#text"].(string)
		if gotA != c.Attr {
			return failf("value-not-recovered", "enc %d attribute: %q -> %q via %q", c.Enc, c.Attr, gotA, x)
		}
		if gotE != trim(c.Text) {
			return failf("value-not-recovered", "enc %d element text: %q -> %q via %q", c.Enc, c.Text, gotE, x)
		}
		if gotM != trim(c.Mixed) {
			return failf("value-not-recovered", "enc %d text beside child: %q -> %q via %q", c.Enc, c.Mixed, gotM, x)
		}
		info.NonTrivial(hasSpecial(c.Text) || hasSpecial(c.Attr) || hasSpecial(c.Mixed))
	case "c":
		if c.Sloppy {
			mxj.CustomDecoder = &xml.Decoder{Strict: false, AutoClose: xml.HTMLAutoClose, Entity: xml.HTMLEntity}
			info.Class("c: non-strict CustomDecoder set")
		}
		x0, err0 := c.encode() // escaping off, check off
		mxj.XmlCheckIsValid(true)
		x, err := c.encode()
		if err == nil {
			if werr := wellFormedSingleRoot(x); werr != nil {
				return failf("invalid-output-without-error", "enc %d: %q returned with nil error (%v)", c.Enc, x, werr)
			}
			if err0 != nil || !bytes.Equal(x, x0) {
				return failf("validity-check-changes-output", "enc %d: with check %q without %q,%v", c.Enc, x, x0, err0)
			}
			info.Class("c: valid output")
		} else {
			if wellFormedSingleRoot(x0) == nil && err0 == nil {
				return failf("spurious-validity-error", "enc %d: %q is well formed but the check reported %v", c.Enc, x0, err)
			}
			info.Class("c: error returned")
		}
		info.NonTrivial(hasSpecial(c.Text) || hasSpecial(c.Attr) || hasSpecial(c.Mixed))
	case "e":
		if c.Value == nil {
			info.Skip = "empty case"
			return nil
		}
		encode := func() ([]byte, error) {
			m := mxj.Map(copyMap(c.Value))
			var tags []string
			if c.Root != "" {
				tags = []string{c.Root}
			}
			if c.Enc == 0 {
				return m.Xml(tags...)
			}
			return m.XmlIndent("", " ", tags...)
		}
		if c.DecOpts != 0 {
			// decoder-only options in force (key folding, trimming, sequence numbers, casting, XMPP stream handling, a skip
			// function): none of them has a say in what an ENCODER returns, with or without the validity check
			applyUnrelatedOptions(c.DecOpts & (1<<0 | 1<<1 | 1<<2 | 1<<3 | 1<<4 | 1<<7 | 1<<8 | 1<<9 | 1<<10 | 1<<12 | 1<<15))
			info.Class("e: decoder-only options in force")
		}
		x0, err0 := encode()
		mxj.XmlCheckIsValid(true)
		x, err := encode()
		special := false
		var walk func(v interface{})
		walk = func(v interface{}) {
			switch y := v.(type) {
			case map[string]interface{}:
				for _, vv := range y {
					walk(vv)
				}
			case []interface{}:
				for _, vv := range y {
					walk(vv)
				}
			case string:
				special = special || hasSpecial(y)
			}
		}
		walk(c.Value)
		if err == nil {
			if terr := tokenizes(x); terr != nil {
				return failf("invalid-output-without-error", "enc %d root %q value %s: %q returned with nil error (%v)", c.Enc, c.Root, canon(c.Value), x, terr)
			}
			info.Class("e: valid output")
		} else {
			// (text that tokenizes but has several roots, or text outside the root, is not a well-formed document: an
			// error for it is what the property allows)
			if err0 == nil && wellFormedSingleRoot(x0) == nil {
				return failf("spurious-validity-error", "enc %d root %q value %s: %q is a well-formed document but the check reported %v", c.Enc, c.Root, canon(c.Value), x0, err)
			}
			info.Class("e: error returned")
		}
		info.NonTrivial(special)
	case "b":
		if c.Doc == nil {
			info.Skip = "empty case"
			return nil
		}
		doc := c.Doc.String()
		special := false
		c.Doc.walk(func(e *XElem) {
			for _, a := range e.Attrs {
				special = special || hasSpecial(a.Value)
			}
			for _, it := range e.Items {
				special = special || (it.Kind == kText && hasSpecial(it.Text))
			}
		})
		switch c.Skip {
		case 1:
			mxj.SetCheckTagToSkipFunc(func(string) bool { return true })
		case 2:
			mxj.SetCheckTagToSkipFunc(func(k string) bool { return len(k)%2 == 0 })
		}
		info.ClassIf(c.Skip != 0, "skip-tag function set (must not matter without the cast flag)")
		if c.Enc < 2 {
			plain1, err := mxj.NewMapXml([]byte(doc))
			if err != nil {
				return failf("decode-error", "%q: %v", doc, err)
			}
			mxj.XMLEscapeCharsDecoder(true)
			bystanders()
			mesc, err := mxj.NewMapXml([]byte(doc))
			if err != nil {
				return failf("decode-error", "%q: %v", doc, err)
			}
			k, v := refDecode(c.Doc, Opts{AttrPrefix: "-", KeyPrefix: "#", DecEscape: true})
			if !valEqual(map[string]interface{}(mesc), map[string]interface{}{k: v}) {
				return failf("escaped-map-mismatch", "doc %q\n got  %#v\n want %#v", doc, mesc, map[string]interface{}{k: v})
			}
			var x []byte
			if c.Enc == 0 {
				x, err = mesc.Xml()
			} else {
				x, err = mesc.XmlIndent("", "  ")
			}
			if err != nil {
				return failf("encode-error", "%v", err)
			}
			mxj.XMLEscapeCharsDecoder(false)
			plain2, err := mxj.NewMapXml(x)
			if err != nil {
				return failf("decode-error", "re-encoded %q: %v", x, err)
			}
			if !valEqual(map[string]interface{}(plain1), map[string]interface{}(plain2)) {
				return failf("decoder-escaping-round-trip", "doc %q\nxml %q\n plain decode of doc %#v\n plain decode of re-encoding %#v", doc, x, plain1, plain2)
			}
		} else {
			want, terr := rawTokens([]byte(doc))
			if terr != nil {
				info.Skip = "generator produced a document the tokenizer rejects"
				return nil
			}
			mxj.XMLEscapeCharsDecoder(true)
			bystanders()
			ms, err := mxj.NewMapXmlSeq([]byte(doc))
			if err != nil {
				return failf("decode-error", "%q: %v", doc, err)
			}
			var x []byte
			if c.Enc == 2 {
				x, err = ms.Xml()
			} else {
				x, err = ms.XmlIndent("", "  ")
			}
			if err != nil {
				return failf("encode-error", "%v", err)
			}
			got, gerr := rawTokens(x)
			if ok, at := toksEqual(got, want); gerr != nil || !ok {
				return failf("decoder-escaping-round-trip", "seq doc %q\nxml %q (%v) differs at token %d", doc, x, gerr, at)
			}
		}
		info.NonTrivial(special)
	case "d":
		// the two switches are coupled: model them and compare behaviour
		encOn, decOn := false, false
		for _, call := range c.Calls {
			if call.Decoder {
				if call.Toggle {
					mxj.XMLEscapeCharsDecoder()
					decOn = !decOn
				} else {
					mxj.XMLEscapeCharsDecoder(call.Value)
					decOn = call.Value
				}
				if decOn {
					encOn = false
				}
			} else {
				want := call.Value
				if call.Toggle {
					mxj.XMLEscapeChars()
					want = !encOn
				} else {
					mxj.XMLEscapeChars(call.Value)
				}
				encOn = want && !decOn
			}
		}
		x, _ := mxj.Map{"a": "<"}.Xml()
		gotEnc := string(x) == "<a>&lt;</a>"
		m, _ := mxj.NewMapXml([]byte("<a>&lt;</a>"))
		gotDec := m["a"] == "&lt;"
		if gotEnc != encOn || gotDec != decOn {
			return failf("switch-coupling", "calls %+v: encoder-side escaping %v (model %v), decoder-side %v (model %v)", c.Calls, gotEnc, encOn, gotDec, decOn)
		}
		both := false
		for _, call := range c.Calls {
			both = both || call.Decoder != c.Calls[0].Decoder
		}
		info.NonTrivial(both)
	}
	return nil
}

func TestC05(t *testing.T) { runProp(t, "C05", genC05, checkC05) }
