package props

// C01 - XML decodes to the Map the documented conventions prescribe, under all options.

import (
	"bytes"
	"os"
	"strconv"
	"strings"
	"testing"

	mxj "github.com/clbanning/mxj/v2"
	"github.com/clbanning/mxj/v2/x2j"
	"pgregory.net/rapid"
)

type CaseC01 struct {
	Opts Opts   `json:"opts"`
	Doc  *XElem `json:"doc"`
	Lead string `json:"lead,omitempty"` // whitespace / prolog before the root
	Fan  int    `json:"fan,omitempty"`  // > 0: the root element gets that many more child elements ("any fan-out"; expanded at check time)
}

// withFan returns the document with Fan generated children appended to the root: rows with a number as text, two
// alternating names (two lists in document order) and now and then an attribute.
func (c CaseC01) withFan() *XElem {
	if c.Fan <= 0 {
		return c.Doc
	}
	root := *c.Doc
	root.Items = append([]XItem(nil), c.Doc.Items...)
	for i := 0; i < c.Fan; i++ {
		el := &XElem{Local: "row", Items: []XItem{{Kind: kText, Text: strconv.Itoa(i)}}}
		if i%3 == 2 {
			el.Local = "Cell"
		}
		if i%1000 == 7 {
			el.Attrs = []XAttr{{Local: "n", Value: "v"}}
		}
		root.Items = append(root.Items, XItem{Kind: kElem, El: el})
	}
	return &root
}

func init() { register("C01", checkC01) }

func genC01(t *rapid.T) CaseC01 {
	o := genDecoderOpts(t, true)
	g := XGen{Depth: 3, Opts: o, MixedText: true, Namespaces: true, Wide: true}
	if o.Cast && rapid.Bool().Draw(t, "casttexts") {
		g.TextGen = genCastText
	}
	c := CaseC01{Opts: o, Doc: g.Elem(t, rapid.IntRange(1, 4).Draw(t, "depth"))}
	c.Lead = rapid.SampledFrom([]string{"", "", "\n", "<?xml version=\"1.0\" encoding=\"UTF-8\"?>\n", "<!-- lead -->", "  "}).Draw(t, "lead")
	if rapid.IntRange(0, 399).Draw(t, "fan") == 237 { // a value rapid has no bias towards (it favours the ends of a range)
		c.Fan = rapid.SampledFrom([]int{255, 1000, 4096, 10001, 10001, 20000}).Draw(t, "fanout")
	}
	return c
}

// docClasses computes the classes of C01's non-triviality rule.
func docClasses(e *XElem, o Opts) (interleaved, collision, textBeside bool) {
	e.walk(func(e *XElem) {
		var names []string
		hasT := false
		for _, it := range e.Items {
			if it.Kind == kElem {
				names = append(names, foldKey(it.El.Local, o))
			}
			if it.Kind == kText {
				hasT = true
			}
		}
		if hasT && (len(names) > 0 || len(e.Attrs) > 0) {
			textBeside = true
		}
		for i := range names {
			for j := i + 2; j < len(names); j++ {
				if names[i] == names[j] {
					for k := i + 1; k < j; k++ {
						if names[k] != names[i] {
							interleaved = true
						}
					}
				}
			}
		}
		// key collisions created by folding or by an empty prefix
		raw := map[string]string{}
		for _, it := range e.Items {
			if it.Kind == kElem {
				fk := foldKey(it.El.Local, o)
				if prev, ok := raw[fk]; ok && prev != it.El.Local {
					collision = true
				}
				raw[fk] = it.El.Local
			}
		}
		for _, a := range e.Attrs {
			if _, ok := raw[attrKey(a.Local, o)]; ok {
				collision = true
			}
		}
	})
	return
}

func checkC01(c CaseC01, info *Info) *Failure {
	if c.Doc == nil {
		info.Skip = "empty case"
		return nil
	}
	c.Doc = c.withFan()
	doc := c.Lead + c.Doc.String()
	k, v := refDecode(c.Doc, c.Opts)
	want := map[string]interface{}{k: v}

	defer resetOptions()
	// the same process has decoded the very same bytes before, under the default options: what a decoder or a wrapper
	// remembers about a document must not outlive a change of the options (results are not looked at here)
	mxj.NewMapXml([]byte(doc))
	mxj.NewMapXmlReader(strings.NewReader(doc))
	x2j.XmlToMap([]byte(doc))
	c.Opts.apply() // the setters alone; the unrelated calls of Opts.Apply follow after the first comparison
	cmp := func(name string, got map[string]interface{}, err error) *Failure {
		if err != nil {
			return failf("decode-error", "%s opts %+v doc %q: error %v", name, c.Opts, doc, err)
		}
		if !valEqual(got, want) {
			return failf("map-mismatch", "%s opts %+v\ndoc  %q\n got  %#v\n want %#v", name, c.Opts, doc, got, want)
		}
		return nil
	}
	if !c.Opts.Cast {
		m0, err := x2j.XmlToMap([]byte(doc))
		if f := cmp("x2j.XmlToMap (same bytes decoded before the options were set)", m0, err); f != nil {
			return f
		}
	}
	m1, err := mxj.NewMapXml([]byte(doc), c.Opts.Cast)
	if f := cmp("NewMapXml", m1, err); f != nil {
		return f
	}
	bystanders()
	m2, err := mxj.NewMapXmlReader(strings.NewReader(doc), c.Opts.Cast)
	if f := cmp("NewMapXmlReader", m2, err); f != nil {
		return f
	}
	if c.Fan >= 4096 {
		// very wide documents: the two main entry points (and x2j above) only
		info.Class("an element with 4096 or more children")
		info.NonTrivial(true)
		return nil
	}
	m3, err := mxj.NewMapXmlReader(oneByteReader{strings.NewReader(doc)}, c.Opts.Cast)
	if f := cmp("NewMapXmlReader(non-ByteReader)", m3, err); f != nil {
		return f
	}
	m4, raw, err := mxj.NewMapXmlReaderRaw(bytes.NewReader([]byte(doc)), c.Opts.Cast)
	if f := cmp("NewMapXmlReaderRaw", m4, err); f != nil {
		return f
	}
	if !strings.HasPrefix(doc, string(raw)) || !strings.Contains(string(raw), c.Doc.String()) {
		return failf("raw-mismatch", "NewMapXmlReaderRaw raw %q is not the consumed prefix of %q", raw, doc)
	}
	if !c.Opts.Cast {
		m5, err := x2j.XmlToMap([]byte(doc))
		if f := cmp("x2j.XmlToMap", m5, err); f != nil {
			return f
		}
	}
	if !c.Opts.Cast {
		// the bulk handlers and (for a sample of the cases: file I/O) the file readers decode with the same conventions
		var seen []map[string]interface{}
		herr := mxj.HandleXmlReader(strings.NewReader(doc+"\n"+doc), func(m mxj.Map) bool { seen = append(seen, m); return true }, func(error) bool { return false })
		if herr != nil || len(seen) != 2 {
			return failf("decode-error", "HandleXmlReader on the document twice: %d Maps, error %v", len(seen), herr)
		}
		for _, m := range seen {
			if f := cmp("HandleXmlReader", m, nil); f != nil {
				return f
			}
		}
		if len(doc)%4 == 0 {
			if fh, ferr := os.CreateTemp(os.Getenv("VERIF_SCRATCH"), "c01-*.xml"); ferr == nil {
				name := fh.Name()
				fh.WriteString(doc + "\n" + doc)
				fh.Close()
				ms, merr := mxj.NewMapsFromXmlFile(name)
				mr, rerr := mxj.NewMapsFromXmlFileRaw(name)
				os.Remove(name)
				if merr != nil || rerr != nil || len(ms) != 2 || len(mr) != 2 {
					return failf("decode-error", "NewMapsFromXmlFile[Raw] on the document twice: %d / %d Maps, errors %v / %v", len(ms), len(mr), merr, rerr)
				}
				for i := range ms {
					if f := cmp("NewMapsFromXmlFile", ms[i], nil); f != nil {
						return f
					}
					if f := cmp("NewMapsFromXmlFileRaw", mr[i].M, nil); f != nil {
						return f
					}
					if !bytes.Contains(mr[i].R, []byte(c.Doc.String())) {
						return failf("raw-mismatch", "NewMapsFromXmlFileRaw raw %q does not contain the document %q", mr[i].R, c.Doc.String())
					}
				}
				info.Class("file readers compared")
			}
		}
	}

	// one more decode after ONE option was changed through its own setter (and no other setter was called)
	if c.Fan == 0 {
		which := len(doc) % 11
		if which == 3 {
			which = 5 // not keep-spaces: the document was generated for the trimming mode in force (inter-element blanks would become text runs)
		}
		o2 := c.Opts.flipOne(which)
		k2, v2 := refDecode(c.Doc, o2)
		m6, err6 := mxj.NewMapXml([]byte(doc), o2.Cast)
		if err6 != nil || !valEqual(map[string]interface{}(m6), map[string]interface{}{k2: v2}) {
			return failf("map-mismatch", "NewMapXml after the single setter call #%d\n opts %+v\n doc  %q\n got  %#v (%v)\n want %#v", len(doc)%11, o2, doc, m6, err6, map[string]interface{}{k2: v2})
		}
	}
	var inter, coll, tb bool
	if c.Fan == 0 { // the class computation is cubic in the number of siblings
		inter, coll, tb = docClasses(c.Doc, c.Opts)
	} else {
		inter = true
	}
	n := c.Doc.countElems()
	def := defaultOpts()
	_, dv := refDecode(c.Doc, def)
	dk, _ := refDecode(c.Doc, def)
	optEffect := !valEqual(map[string]interface{}{dk: dv}, want)
	info.ClassIf(inter, "interleaved repeated siblings")
	info.ClassIf(coll, "key collision by folding or empty prefix")
	info.ClassIf(tb, "text beside attributes/children")
	info.ClassIf(optEffect, "options change the expected Map")
	info.ClassIf(c.Opts.Cast, "cast flag on")
	info.ClassIf(n >= 34, "wide element (>=33 children)")
	info.ClassIf(c.Opts.AttrPrefix == "", "empty attribute prefix")
	info.NonTrivial(n >= 2 && (inter || coll || tb || optEffect))
	return nil
}

// oneByteReader hides every other interface of the underlying reader (no io.ByteReader).
type oneByteReader struct{ r *strings.Reader }

func (o oneByteReader) Read(p []byte) (int, error) {
	if len(p) > 1 {
		p = p[:1]
	}
	return o.r.Read(p)
}

func TestC01(t *testing.T) { runProp(t, "C01", genC01, checkC01) }
