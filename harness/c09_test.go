package props

// C09 - LeafNodes lists every terminal value once, with a path that resolves to it.

import (
	"fmt"
	"reflect"
	"sort"
	"strconv"
	"strings"
	"testing"

	mxj "github.com/clbanning/mxj/v2"
	"github.com/clbanning/mxj/v2/j2x"
	"github.com/clbanning/mxj/v2/x2j"
	"pgregory.net/rapid"
)

type CaseC09 struct {
	Map          map[string]interface{} `json:"map"`
	Prefix       string                 `json:"prefix"` // attribute prefix
	Dot          bool                   `json:"dot,omitempty"`
	DotViaToggle bool                   `json:"dot_via_toggle,omitempty"` // the dot-notation flag is brought to its value through LeafUseDotNotation() without an argument
	NoAttr       bool                   `json:"no_attr,omitempty"`
	Exotic       bool                   `json:"exotic,omitempty"` // keys may be "", dotted, bracketed, "*"
	Alias        *AliasSpec             `json:"alias,omitempty"`  // one container object gets a second parent in the subject Map
}

func init() { register("C09", checkC09) }

var exoticKeys = []string{"a", "b", "c", "", "x.y", "q[0]", "*", "[", "k", " "}

func genExoticMap(t *rapid.T, d int, prefix string) map[string]interface{} {
	m := map[string]interface{}{}
	n := rapid.IntRange(0, 4).Draw(t, "n")
	for i := 0; i < n; i++ {
		k := rapid.SampledFrom(exoticKeys).Draw(t, "k")
		switch rapid.IntRange(0, 6).Draw(t, "kind") {
		case 0:
			if prefix != "" {
				m[prefix+k] = "attr"
			}
		case 1:
			m["#text"] = "txt"
		case 2:
			if d > 0 {
				m[k] = genExoticMap(t, d-1, prefix)
			}
		case 3:
			if d > 0 {
				m[k] = []interface{}{genExoticMap(t, d-1, prefix), "s", nil}
			}
		default:
			m[k] = instScalar(t)
		}
	}
	return m
}

// decorate adds attribute and text entries to some maps of a shape-first Map.
func decorate(t *rapid.T, v interface{}, prefix string) {
	switch x := v.(type) {
	case map[string]interface{}:
		for _, k := range sortedKeys(x) {
			decorate(t, x[k], prefix)
		}
		r := rapid.IntRange(0, 5).Draw(t, "deco")
		if r == 0 && prefix != "" {
			x[prefix+rapid.SampledFrom([]string{"id", "a", "n"}).Draw(t, "an")] = instScalar(t)
		}
		if r == 1 {
			x["#text"] = rapid.SampledFrom(scalarStrings).Draw(t, "tv")
		}
		if r == 2 && rapid.Bool().Draw(t, "textcontainer") {
			// JSON-only shapes: a container under the text key
			if rapid.Bool().Draw(t, "textlist") {
				x["#text"] = []interface{}{"x", instScalar(t), map[string]interface{}{"k": "y"}}
			} else {
				x["#text"] = map[string]interface{}{"k": instScalar(t), "l": []interface{}{"z"}}
			}
		}
	case []interface{}:
		for _, vv := range x {
			decorate(t, vv, prefix)
		}
	}
}

func genC09(t *rapid.T) CaseC09 {
	c := CaseC09{Prefix: rapid.SampledFrom([]string{"-", "-", "@", "attr_", ""}).Draw(t, "prefix")}
	c.Dot = rapid.IntRange(0, 3).Draw(t, "dot") == 0
	c.DotViaToggle = rapid.IntRange(0, 2).Draw(t, "dottoggle") == 0
	c.NoAttr = rapid.Bool().Draw(t, "noattr")
	switch rapid.IntRange(0, 9).Draw(t, "src") {
	case 0, 1, 2:
		c.Exotic = true
		c.Map = genExoticMap(t, 3, c.Prefix)
	case 3:
		c.Map, _ = boostTwoIndexed(t)
	case 5:
		// a list of exactly 32 members (the default result capacity), 31, 33, 64 ...
		c.Map, _ = boostWide(t)
	case 4:
		// empty member names on the way to a leaf (never as the last key: "a." cannot address the member "" of a)
		c.Map, _, _ = boostEmptyKey(t)
	default:
		sh := genRootShape(t, false)
		c.Map = instantiate(t, sh).(map[string]interface{})
		decorate(t, c.Map, c.Prefix)
		if rapid.IntRange(0, 7).Draw(t, "wrapdeep") == 0 {
			c.Map, _ = wrapDeep(t, c.Map, nil)
		}
	}
	if rapid.IntRange(0, 5).Draw(t, "alias") == 0 {
		c.Alias = &AliasSpec{Src: rapid.IntRange(0, 30).Draw(t, "asrc"), Dst: rapid.IntRange(0, 30).Draw(t, "adst"), Key: rapid.SampledFrom(shapeKeys).Draw(t, "akey")}
	}
	return c
}

type refLeaf struct {
	path string
	val  interface{}
}

// refLeaves: named tells whether a key has been added to path already (an empty path may be the path of the empty key:
// what follows it is joined with a dot like after any other key).
func refLeaves(v interface{}, path string, c CaseC09, out *[]refLeaf) {
	refLeavesAt(v, path, path != "", c, out)
}

func refLeavesAt(v interface{}, path string, named bool, c CaseC09, out *[]refLeaf) {
	switch x := v.(type) {
	case map[string]interface{}:
		for _, k := range sortedKeys(x) {
			if c.NoAttr && c.Prefix != "" && strings.HasPrefix(k, c.Prefix) {
				continue
			}
			p, n := path, named
			if !(c.NoAttr && k == "#text") {
				if n {
					p += "."
				}
				p += k
				n = true
			}
			refLeavesAt(x[k], p, n, c, out)
		}
	case []interface{}:
		for i, vv := range x {
			if c.Dot {
				p := strconv.Itoa(i)
				if named {
					p = path + "." + p
				}
				refLeavesAt(vv, p, true, c, out)
			} else {
				refLeavesAt(vv, path+"["+strconv.Itoa(i)+"]", true, c, out)
			}
		}
	default:
		*out = append(*out, refLeaf{path, v})
	}
}

func leafStrings(paths []string, vals []interface{}, withPath bool) []string {
	out := make([]string, len(vals))
	for i := range vals {
		if withPath {
			out[i] = fmt.Sprintf("%s=%#v", paths[i], vals[i])
		} else {
			out[i] = fmt.Sprintf("%#v", vals[i])
		}
	}
	sort.Strings(out)
	return out
}

func maxListLevels(v interface{}, levels int, sepByKey bool, best *int, twoSep *bool) {
	switch x := v.(type) {
	case map[string]interface{}:
		for _, vv := range x {
			maxListLevels(vv, levels, levels > 0, best, twoSep)
		}
	case []interface{}:
		levels++
		if levels > *best {
			*best = levels
		}
		if levels >= 2 && sepByKey {
			*twoSep = true
		}
		for _, vv := range x {
			maxListLevels(vv, levels, false, best, twoSep)
		}
	}
}

func checkC09(c CaseC09, info *Info) *Failure {
	if c.Map == nil {
		info.Skip = "empty case"
		return nil
	}
	if hasListInList(c.Map) {
		info.Skip = "list-in-list (outside the domain)"
		return nil
	}
	defer resetOptions()
	setAttrPrefixBy(c.Prefix, c.DotViaToggle)
	if c.DotViaToggle {
		// the documented argument-less form: "toggles the flag" - from the opposite value
		mxj.LeafUseDotNotation(!c.Dot)
		mxj.LeafUseDotNotation()
		info.Class("dot notation reached through the toggle form")
	} else {
		mxj.LeafUseDotNotation(c.Dot)
	}
	bystanders()
	subject := copyMap(c.Map)
	if c.Alias != nil {
		// the subject holds one container object twice; the reference sees the same Map by value
		byValue := copyMap(c.Map)
		if applyAlias(subject, *c.Alias, true) && applyAlias(byValue, *c.Alias, false) && !hasListInList(byValue) {
			c.Map = byValue
			info.Class("shared sub-structure in the subject")
		} else {
			subject = copyMap(c.Map)
		}
	}
	mv := mxj.Map(subject)
	js := canon(c.Map)

	lns := mv.LeafNodes(c.NoAttr)
	var want []refLeaf
	refLeaves(copyMap(c.Map), "", c, &want)
	gp, gv := make([]string, len(lns)), make([]interface{}, len(lns))
	for i, l := range lns {
		gp[i], gv[i] = l.Path, l.Value
	}
	wp, wv := make([]string, len(want)), make([]interface{}, len(want))
	for i, l := range want {
		wp[i], wv[i] = l.path, l.val
	}
	// (1) enumeration: exact (path,value) multiset for safe keys; count and values for exotic keys
	g, w := leafStrings(gp, gv, !c.Exotic), leafStrings(wp, wv, !c.Exotic)
	if !reflect.DeepEqual(g, w) && len(g)+len(w) > 0 {
		return failf("leaf-enumeration-mismatch", "map %s prefix %q dot=%v noattr=%v\n got  %v\n want %v", js, c.Prefix, c.Dot, c.NoAttr, g, w)
	}
	// (3) projections
	lp := mv.LeafPaths(c.NoAttr)
	lv := mv.LeafValues(c.NoAttr)
	sp := append([]string(nil), lp...)
	sort.Strings(sp)
	sg := append([]string(nil), gp...)
	sort.Strings(sg)
	if !reflect.DeepEqual(sp, sg) && len(sp)+len(sg) > 0 {
		return failf("projection-mismatch", "map %s noattr=%v: LeafPaths %v is not the path projection of LeafNodes %v", js, c.NoAttr, sp, sg)
	}
	if !sameMultisetStrict(lv, gv) {
		return failf("projection-mismatch", "map %s noattr=%v: LeafValues %v is not the value projection of LeafNodes %v", js, c.NoAttr, lv, gv)
	}
	// argument-less form == explicit false
	if !c.NoAttr {
		d := mv.LeafNodes()
		dp, dv := make([]string, len(d)), make([]interface{}, len(d))
		for i, l := range d {
			dp[i], dv[i] = l.Path, l.Value
		}
		if !reflect.DeepEqual(leafStrings(dp, dv, true), leafStrings(gp, gv, true)) {
			return failf("projection-mismatch", "map %s: LeafNodes() differs from LeafNodes(false)", js)
		}
	}
	// (2) resolution: default options, safe keys
	resolved := 0
	if !c.Exotic && !c.Dot && !c.NoAttr {
		for _, l := range lns {
			vs, err := mv.ValuesForPath(l.Path)
			if err != nil || len(vs) != 1 || !reflect.DeepEqual(vs[0], l.Value) {
				return failf("leaf-path-does-not-resolve", "map %s: leaf path %q resolves to %s (%v), want exactly [%s]", js, l.Path, canon(vs), err, canon(l.Value))
			}
			resolved++
		}
	}
	// (5) wrappers
	if !c.Exotic && c.Prefix == "-" && !c.Dot && !c.NoAttr {
		if jb, err := mv.Json(); err == nil {
			// the caller's buffer held another document of the same length a moment ago (and the wrappers saw it)
			jb = reuseBuffer(jb, false, func(b []byte) { j2x.JsonLeafNodes(b); j2x.JsonLeafPath(b); j2x.JsonLeafValues(b) })
			jl, jerr := j2x.JsonLeafNodes(jb)
			jp, jv := make([]string, len(jl)), make([]interface{}, len(jl))
			for i, l := range jl {
				jp[i], jv[i] = l.Path, l.Value
			}
			if jerr != nil || !reflect.DeepEqual(leafStrings(jp, jv, true), g) {
				return failf("wrapper-mismatch", "j2x.JsonLeafNodes(%s) = %v,%v want %v", jb, leafStrings(jp, jv, true), jerr, g)
			}
			jlp, jlperr := j2x.JsonLeafPath(jb)
			jlv, jlverr := j2x.JsonLeafValues(jb)
			wjp := append([]string(nil), jp...)
			sort.Strings(jlp)
			sort.Strings(wjp)
			if jlperr != nil || jlverr != nil || len(jlp) != len(wjp) || (len(jlp) > 0 && !reflect.DeepEqual(jlp, wjp)) || !sameMultisetStrict(jlv, jv) {
				return failf("wrapper-mismatch", "j2x.JsonLeafPath / JsonLeafValues(%s) = %v / %v (%v %v); JsonLeafNodes gives %v / %v", jb, jlp, jlv, jlperr, jlverr, wjp, jv)
			}
		}
		if !hasEmptyKeyOrOdd(c.Map) && !hasKeyNamed(c.Map, "#text") {
			if xb, err := mv.Xml(); err == nil {
				// the same bytes were seen a moment ago under another attribute prefix: every call decodes afresh
				mxj.SetAttrPrefix("zz_")
				x2j.XmlLeafNodes(xb)
				x2j.XmlLeafPath(xb)
				mxj.SetAttrPrefix(c.Prefix)
				if m2, derr := mxj.NewMapXml(xb); derr == nil {
					if len(xb)%2 == 0 {
						// (in the other half the wrappers go from the call under another prefix straight to the real one)
						xb = reuseBuffer(xb, true, func(b []byte) { x2j.XmlLeafNodes(b); x2j.XmlLeafPath(b); x2j.XmlLeafValues(b) })
					}
					xl, xerr := x2j.XmlLeafNodes(xb)
					cl := m2.LeafNodes()
					xp, xv := make([]string, len(xl)), make([]interface{}, len(xl))
					for i, l := range xl {
						xp[i], xv[i] = l.Path, l.Value
					}
					cp, cv := make([]string, len(cl)), make([]interface{}, len(cl))
					for i, l := range cl {
						cp[i], cv[i] = l.Path, l.Value
					}
					if xerr != nil || !reflect.DeepEqual(leafStrings(xp, xv, true), leafStrings(cp, cv, true)) {
						return failf("wrapper-mismatch", "x2j.XmlLeafNodes(%s) = %v,%v; core %v", xb, leafStrings(xp, xv, true), xerr, leafStrings(cp, cv, true))
					}
					xlp, xlperr := x2j.XmlLeafPath(xb)
					wlp := m2.LeafPaths()
					sort.Strings(xlp)
					sort.Strings(wlp)
					xlv, xlverr := x2j.XmlLeafValues(xb)
					if xlperr != nil || xlverr != nil || !reflect.DeepEqual(xlp, wlp) || !sameMultisetStrict(xlv, m2.LeafValues()) {
						return failf("wrapper-mismatch", "x2j.XmlLeafPath / XmlLeafValues(%s) = %v / %v (%v %v); core %v / %v", xb, xlp, xlv, xlperr, xlverr, wlp, m2.LeafValues())
					}
				}
			}
		}
	}
	if !reflect.DeepEqual(subject, c.Map) {
		return failf("receiver-modified", "map %s became %s", js, canon(subject))
	}
	if f := staleAfterChange(subject, "LeafNodes", func(v mxj.Map) string {
		var out []string
		for _, l := range v.LeafNodes(c.NoAttr) {
			out = append(out, fmt.Sprintf("%s=%#v", l.Path, l.Value))
		}
		sort.Strings(out)
		lp := v.LeafPaths(c.NoAttr)
		sort.Strings(lp)
		return fmt.Sprint(out, lp, len(v.LeafValues(c.NoAttr)))
	}); f != nil {
		return f
	}
	best, twoSep := 0, false
	maxListLevels(c.Map, 0, false, &best, &twoSep)
	info.ClassIf(c.Exotic, "exotic keys")
	info.ClassIf(c.NoAttr, "no-attributes option")
	info.ClassIf(c.Dot, "dot notation")
	info.ClassIf(best >= 1 && len(want) >= 2, ">=2 leaves and a list on a leaf path")
	info.ClassIf(twoSep, "two list levels separated by a plain key")
	info.ClassIf(resolved > 0, "resolution clause exercised")
	info.NonTrivial(best >= 1 && len(want) >= 2)
	return nil
}

func hasKeyNamed(v interface{}, name string) bool {
	switch x := v.(type) {
	case map[string]interface{}:
		for k, vv := range x {
			if k == name || hasKeyNamed(vv, name) {
				return true
			}
		}
	case []interface{}:
		for _, vv := range x {
			if hasKeyNamed(vv, name) {
				return true
			}
		}
	}
	return false
}

// sameMultisetStrict compares with %#v (type-sensitive).
func sameMultisetStrict(a, b []interface{}) bool {
	if len(a) != len(b) {
		return false
	}
	x, y := make([]string, len(a)), make([]string, len(b))
	for i := range a {
		x[i], y[i] = fmt.Sprintf("%#v", a[i]), fmt.Sprintf("%#v", b[i])
	}
	sort.Strings(x)
	sort.Strings(y)
	return reflect.DeepEqual(x, y)
}

func TestC09(t *testing.T) { runProp(t, "C09", genC09, checkC09) }
