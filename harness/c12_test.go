package props

// C12 - NewMap builds exactly the requested projection and leaves the source unchanged.

import (
	"bytes"
	"io"
	"reflect"
	"sort"
	"strings"
	"testing"

	mxj "github.com/clbanning/mxj/v2"
	"github.com/clbanning/mxj/v2/j2x"
	"github.com/clbanning/mxj/v2/x2j"
	"pgregory.net/rapid"
)

type PairC12 struct {
	Old []Step   `json:"old"`
	New []string `json:"new"`           // nil: the "oldKey" shorthand
	Raw string   `json:"raw,omitempty"` // malformed pair given literally
}

type CaseC12 struct {
	Map       map[string]interface{} `json:"map"`
	Pairs     []PairC12              `json:"pairs"`
	Unrelated uint32                 `json:"unrelated_opts,omitempty"`
	FieldSep  string                 `json:"field_sep,omitempty"` // sub-key field separator in force (NewMap pairs always use ":")
	Alias     *AliasSpec             `json:"alias,omitempty"`     // one container object gets a second parent in the receiver
}

func init() { register("C12", checkC12) }

var malformedPairs = []string{"a:", ":b", "a:b:c", "a:n*", "a:n[0]", "a:*", ":", "a::b", "::", "a.*", "*", "list[1]", "a[0].k", "*.b", "a.b[0]"}

var spacedKeys = []string{" id", "id", "note ", "note", " a ", "b", "id "}

// genSpacedC12: keys with leading/trailing blanks are legal in JSON; NewMap documents no trimming.
func genSpacedC12(t *rapid.T) CaseC12 {
	c := CaseC12{Map: map[string]interface{}{}}
	n := rapid.IntRange(2, 5).Draw(t, "nk")
	for i := 0; i < n; i++ {
		k := rapid.SampledFrom(spacedKeys).Draw(t, "k")
		if rapid.Bool().Draw(t, "nested") {
			c.Map[k] = map[string]interface{}{rapid.SampledFrom(spacedKeys).Draw(t, "k2"): float64(i), "z": "v"}
		} else {
			c.Map[k] = float64(i)
		}
	}
	np := rapid.IntRange(1, 3).Draw(t, "npairs")
	for i := 0; i < np; i++ {
		p := PairC12{Old: []Step{{rapid.SampledFrom(spacedKeys).Draw(t, "ok"), -1}}}
		if rapid.Bool().Draw(t, "deep") {
			p.Old = append(p.Old, Step{rapid.SampledFrom(spacedKeys).Draw(t, "ok2"), -1})
		}
		if rapid.IntRange(0, 3).Draw(t, "shorthand") > 0 {
			p.New = []string{rapid.SampledFrom([]string{"first", " out", "x ", "n1", " n2 "}).Draw(t, "nk")}
			if rapid.Bool().Draw(t, "deepnew") {
				p.New = append(p.New, rapid.SampledFrom([]string{"m", " m", "m "}).Draw(t, "nk2"))
			}
		}
		c.Pairs = append(c.Pairs, p)
	}
	return c
}

// genOverlapC12: three to five pairs whose new paths are drawn from a five-letter alphabet, so that they share
// prefixes and segment names at the same depth under different roots, over sources that are maps holding maps.
func genOverlapC12(t *rapid.T) CaseC12 {
	names := []string{"a", "b", "x", "c", "d"}
	leaf := func() interface{} { return instScalar(t) }
	inner := func() map[string]interface{} {
		m := map[string]interface{}{}
		for _, k := range names {
			switch rapid.IntRange(0, 3).Draw(t, "ik") {
			case 0:
				m[k] = leaf()
			case 1:
				m[k] = map[string]interface{}{rapid.SampledFrom(names).Draw(t, "ik2"): leaf(), "y": leaf()}
			}
		}
		if len(m) == 0 {
			m["x"] = map[string]interface{}{"y": leaf()}
		}
		return m
	}
	c := CaseC12{Map: map[string]interface{}{"s": inner(), "v": leaf(), "w": leaf(), "u": inner()}}
	np := rapid.IntRange(3, 5).Draw(t, "npairs")
	for i := 0; i < np; i++ {
		p := PairC12{Old: []Step{{rapid.SampledFrom([]string{"s", "v", "w", "u", "s", "u"}).Draw(t, "old"), -1}}}
		if rapid.IntRange(0, 3).Draw(t, "olddeep") == 0 {
			p.Old = append(p.Old, Step{rapid.SampledFrom(names).Draw(t, "old2"), -1})
		}
		nlen := rapid.IntRange(1, 3).Draw(t, "nlen")
		for j := 0; j < nlen; j++ {
			p.New = append(p.New, rapid.SampledFrom(names).Draw(t, "nkey"))
		}
		c.Pairs = append(c.Pairs, p)
	}
	return c
}

func genC12(t *rapid.T) CaseC12 {
	if rapid.IntRange(0, 7).Draw(t, "spaced") == 0 {
		return genSpacedC12(t)
	}
	if rapid.IntRange(0, 5).Draw(t, "overlap") == 0 {
		return genOverlapC12(t)
	}
	if rapid.IntRange(0, 11).Draw(t, "emptykey") == 5 {
		// the empty string as a member name: in the receiver (shorthand pairs keep the old path, "a..b") and in new paths
		var c CaseC12
		var st []Step
		c.Map, st, _ = boostEmptyKey(t)
		p := PairC12{Old: st}
		if hasWildcard(st) || countIndexed(st) > 0 || rapid.Bool().Draw(t, "eknew") {
			p.New = []string{"n1", "", "n2"}
			if rapid.Bool().Draw(t, "eklead") {
				p.New = []string{"", "n1"}
			}
		}
		c.Pairs = []PairC12{p}
		if rapid.Bool().Draw(t, "eksecond") {
			c.Pairs = append(c.Pairs, PairC12{Old: []Step{{rapid.SampledFrom(shapeKeys).Draw(t, "ek2"), -1}}, New: []string{"q", "", "", "r"}})
		}
		return c
	}
	sh := genRootShape(t, false)
	c := CaseC12{Map: instantiate(t, sh).(map[string]interface{})}
	np := rapid.IntRange(1, 5).Draw(t, "npairs")
	for i := 0; i < np; i++ {
		if rapid.IntRange(0, 24).Draw(t, "malformed") == 17 {
			c.Pairs = append(c.Pairs, PairC12{Raw: rapid.SampledFrom(malformedPairs).Draw(t, "raw")})
			continue
		}
		p := PairC12{Old: genShapePath(t, sh, rapid.Bool().Draw(t, "indexed"))}
		if rapid.IntRange(0, 7).Draw(t, "shorthand") > 0 || hasWildcard(p.Old) || countIndexed(p.Old) > 0 {
			nlen := rapid.IntRange(1, 3).Draw(t, "nlen")
			for j := 0; j < nlen; j++ {
				p.New = append(p.New, rapid.SampledFrom([]string{"n1", "n2", "n3", "q", "n1", "n2", "a", "b", "k", "list", "sub", "items"}).Draw(t, "nkey"))
			}
			if rapid.IntRange(0, 15).Draw(t, "rawnew") == 7 {
				p.New[nlen-1] = rapid.SampledFrom([]string{"BYTES-E9", "BYTES-E8", "BYTES-C3"}).Draw(t, "rawkey")
			}
			if nlen >= 2 && !hasWildcard(p.Old) && rapid.IntRange(0, 5).Draw(t, "attrnew") == 0 {
				// the last member of a new path may be an attribute key or the text key
				p.New[nlen-1] = rapid.SampledFrom([]string{"-id", "#text", "-n"}).Draw(t, "attrkey")
			}
		}
		c.Pairs = append(c.Pairs, p)
	}
	if rapid.IntRange(0, 7).Draw(t, "wrapdeep") == 0 {
		var pre, plain []Step
		c.Map, pre, plain = wrapDeepPrefix2(t, c.Map)
		for i := range c.Pairs {
			if c.Pairs[i].Raw == "" && len(c.Pairs[i].Old) > 0 {
				use := pre
				if len(c.Pairs[i].New) == 0 {
					use = plain // the shorthand form (old path = new path) admits no wildcard
				}
				c.Pairs[i].Old = append(append([]Step(nil), use...), c.Pairs[i].Old...)
			}
		}
	}
	c.Unrelated = genUnrelated(t)
	if rapid.IntRange(0, 7).Draw(t, "alias") == 0 {
		c.Alias = &AliasSpec{Src: rapid.IntRange(0, 30).Draw(t, "asrc"), Dst: rapid.IntRange(0, 30).Draw(t, "adst"), Key: rapid.SampledFrom([]string{"al", "a", "zz"}).Draw(t, "akey")}
	}
	if rapid.IntRange(0, 3).Draw(t, "fieldsep") == 0 {
		c.FieldSep = rapid.SampledFrom([]string{"|", "::", "."}).Draw(t, "fsep")
	}
	return c
}

func (p PairC12) String() string {
	if p.Raw != "" {
		return p.Raw
	}
	if p.New == nil {
		return pathString(p.Old)
	}
	return pathString(p.Old) + ":" + strings.Join(p.New, ".")
}

func (p PairC12) newPath() []string {
	if p.New == nil {
		return stepNames(p.Old)
	}
	return p.New
}

func sortListAt(m map[string]interface{}, path []string) {
	for _, s := range path[:len(path)-1] {
		nm, ok := m[s].(map[string]interface{})
		if !ok {
			return
		}
		m = nm
	}
	if l, ok := m[path[len(path)-1]].([]interface{}); ok {
		sort.Slice(l, func(i, j int) bool { return canon(l[i]) < canon(l[j]) })
	}
}

func checkC12(c CaseC12, info *Info) *Failure {
	if c.Map == nil {
		info.Skip = "empty case"
		return nil
	}
	defer resetOptions()
	applyUnrelatedOptions(c.Unrelated)
	if c.FieldSep != "" {
		mxj.SetFieldSeparator(c.FieldSep)
		bystanders()
		info.Class("non-default sub-key field separator in force")
	}
	info.ClassIf(c.Unrelated != 0, "unrelated options switched on")
	subject := copyMap(c.Map)
	if c.Alias != nil {
		// the receiver holds one container object twice; the reference sees the same Map by value
		byValue := copyMap(c.Map)
		if applyAlias(subject, *c.Alias, true) && applyAlias(byValue, *c.Alias, false) {
			c.Map = byValue
			info.Class("shared sub-structure in the receiver")
		} else {
			subject = copyMap(c.Map)
		}
	}
	js := canon(c.Map)
	// new-path members that are not valid UTF-8 (a Go program may use any string as a key) are kept as placeholders in the
	// case and become raw bytes here: JSON, which the case is stored in, cannot carry them
	rawBytes := false
	for i := range c.Pairs {
		if len(c.Pairs[i].New) == 0 {
			continue
		}
		nw := append([]string(nil), c.Pairs[i].New...)
		for j, seg := range nw {
			switch seg {
			case "BYTES-E9":
				nw[j], rawBytes = "caf\xe9", true
			case "BYTES-E8":
				nw[j], rawBytes = "\xe8", true
			case "BYTES-C3":
				nw[j], rawBytes = "a\xc3", true // a truncated two-byte sequence
			}
		}
		c.Pairs[i].New = nw
	}
	info.ClassIf(rawBytes, "a new key that is not valid UTF-8")
	var pairs []string
	malformed := false
	for _, p := range c.Pairs {
		if p.Raw == "" && len(p.Old) == 0 {
			info.Skip = "empty pair"
			return nil
		}
		if p.Raw == "" && countIndexed(p.Old) > 0 && hasListInList(c.Map) {
			info.Skip = "indexed path over list-in-list"
			return nil
		}
		pairs = append(pairs, p.String())
		malformed = malformed || p.Raw != ""
	}
	got, err := mxj.Map(subject).NewMap(pairs...)
	if !reflect.DeepEqual(subject, c.Map) {
		return failf("receiver-modified", "NewMap(%q)\nbefore %s\nafter  %s", pairs, js, canon(subject))
	}
	// a second call over the same receiver while the first result is still alive
	if err == nil {
		_, _ = mxj.Map(subject).NewMap(pairs...)
		if !reflect.DeepEqual(subject, c.Map) {
			return failf("receiver-modified", "second NewMap(%q)\nbefore %s\nafter  %s", pairs, js, canon(subject))
		}
		got, err = mxj.Map(subject).NewMap(pairs...)
	}
	if malformed {
		info.Class("malformed pair")
		if err == nil {
			return failf("malformed-pair-accepted", "NewMap(%q) returned no error", pairs)
		}
		info.NonTrivial(len(c.Pairs) >= 2)
		return nil
	}
	if err != nil {
		return failf("error", "NewMap(%q) on %s: %v", pairs, js, err)
	}
	// expected content when no new path equals or extends another
	overlap := false
	var news [][]string
	for _, p := range c.Pairs {
		np := strings.Join(p.newPath(), ".")
		for _, q := range news {
			qq := strings.Join(q, ".")
			if qq == np || strings.HasPrefix(qq, np+".") || strings.HasPrefix(np, qq+".") {
				overlap = true
			}
		}
		news = append(news, p.newPath())
	}
	nonEmpty, mapVal := 0, false
	expected := map[string]interface{}{}
	for _, p := range c.Pairs {
		vals := refEval(copyMap(c.Map), p.Old)
		if len(vals) == 0 {
			continue
		}
		nonEmpty++
		for _, v := range vals {
			if _, ok := v.(map[string]interface{}); ok {
				mapVal = true
			}
		}
		if overlap {
			continue
		}
		m := expected
		np := p.newPath()
		for _, s := range np[:len(np)-1] {
			nm, ok := m[s].(map[string]interface{})
			if !ok {
				nm = map[string]interface{}{}
				m[s] = nm
			}
			m = nm
		}
		if len(vals) == 1 {
			m[np[len(np)-1]] = vals[0]
		} else {
			m[np[len(np)-1]] = vals
		}
	}
	if !overlap {
		gotc := copyMap(got)
		for _, p := range c.Pairs {
			if hasWildcard(p.Old) {
				sortListAt(gotc, p.newPath())
				sortListAt(expected, p.newPath())
			}
		}
		if !reflect.DeepEqual(gotc, expected) {
			return failf("content-mismatch", "source %s\npairs %q\n got  %s\n want %s", js, pairs, canon(gotc), canon(expected))
		}
		// the JSON wrapper agrees
		if jb, jerr := mxj.Map(subject).Json(); jerr == nil && !rawBytes {
			out, werr := j2x.JsonNewJson(jb, pairs...)
			if werr != nil {
				return failf("wrapper-mismatch", "j2x.JsonNewJson(%s, %q): %v", jb, pairs, werr)
			}
			back, _ := mxj.NewMapJson(out)
			bc := copyMap(back)
			for _, p := range c.Pairs {
				if hasWildcard(p.Old) {
					sortListAt(bc, p.newPath())
				}
			}
			if !reflect.DeepEqual(bc, expected) {
				return failf("wrapper-mismatch", "j2x.JsonNewJson(%s, %q) = %s want %s", jb, pairs, out, canon(expected))
			}
		}
		// the XML wrapper on the encoded document: what it returns stands for the Map that NewMap gives on the decoded
		// document (content, as Maps; that its text is the core encoder's text is C20's clause)
		if c.FieldSep == "" && c.Unrelated == 0 && !rawBytes && !hasEmptyKeyOrOdd(c.Map) && len(c.Map) == 1 && !isListVal(c.Map) {
			if xb, xerr := mxj.Map(copyMap(c.Map)).Xml(); xerr == nil {
				if xm, derr := mxj.NewMapXml(xb); derr == nil {
					var wantDoc []byte
					wm, werr := xm.NewMap(pairs...)
					if werr == nil {
						wantDoc, werr = wm.Xml()
					}
					gotDoc, gerr := x2j.XmlNewXml(xb, pairs...)
					same := (gerr == nil) == (werr == nil)
					if same && gerr == nil {
						// a new Map that is one key holding a list is written as several root elements: all of them are
						// decoded; values gathered through a wildcard come in map-iteration order, so lists (and the
						// sequence of roots) are compared as multisets
						same = canon(sortLists(decodeAllXML(gotDoc))) == canon(sortLists(decodeAllXML(wantDoc)))
					}
					if !same {
						return failf("wrapper-mismatch", "x2j.XmlNewXml(%s, %q) = %s (%v); NewMapXml + NewMap + Xml gives %s (%v)", xb, pairs, gotDoc, gerr, wantDoc, werr)
					}
					info.Class("x2j.XmlNewXml compared")
				}
			}
		}
	} else {
		info.Class("overlapping new paths (receiver clause only)")
	}
	// old paths that begin with an indexed wildcard: whatever ValuesForPath yields for them is what the new key holds
	// (the path model of C07 does not cover an index on a wildcard step, so the library's own query is the oracle here)
	// Only where the wildcard ranges over a one-entry map (as the root of every decoded document is): otherwise the
	// i-th value depends on map iteration order.
	if c.FieldSep == "" && len(c.Map) == 1 {
		for _, old := range []string{"*[0]", "*[1]", "*[0].a", "*[1].k", "*[2]", "*[1].b", "*[0].list"} {
			vals, verr := mxj.Map(copyMap(c.Map)).ValuesForPath(old)
			nm, nerr := mxj.Map(copyMap(c.Map)).NewMap(old + ":zz9")
			if verr != nil || nerr != nil {
				continue
			}
			got, present := nm["zz9"]
			var want interface{}
			switch len(vals) {
			case 0:
			case 1:
				want = vals[0]
			default:
				want = vals
			}
			if present != (len(vals) > 0) || (present && canon(got) != canon(want) && !sameMultiset(asList(got), asList(want))) {
				return failf("content-mismatch", "source %s: NewMap(%q) gives %s (present=%v), ValuesForPath(%q) yields %s", js, old+":zz9", canon(got), present, old, canon(vals))
			}
		}
	}
	// the JSON wrapper on a document whose top level is a list: NewMapJson puts it under "object", and so must the wrapper
	if jb, jerr := mxj.Map(copyMap(c.Map)).Json(); jerr == nil && c.FieldSep == "" {
		listDoc := append(append(append([]byte("["), jb...), ','), append(append([]byte(nil), jb...), ']')...)
		if lm, lerr := mxj.NewMapJson(listDoc); lerr == nil {
			for _, lp := range [][]string{{"object:all"}, {"object[1]:second", "object:all"}, {"*:any"}} {
				wantM, werr := lm.NewMap(lp...)
				var wantJ []byte
				if werr == nil {
					wantJ, _ = wantM.Json()
				}
				gotJ, gerr := j2x.JsonNewJson(listDoc, lp...)
				sameDoc := func(a, b []byte) bool {
					// C12 speaks about the Map: the two texts must decode to the same value (which spelling the wrapper uses is C20's business)
					ma, ea := mxj.NewMapJson(a)
					mb, eb := mxj.NewMapJson(b)
					return ea == nil && eb == nil && reflect.DeepEqual(ma, mb)
				}
				if (gerr == nil) != (werr == nil) || (gerr == nil && !sameDoc(gotJ, wantJ)) {
					return failf("wrapper-mismatch", "j2x.JsonNewJson(%s, %q) = %s (%v); NewMapJson + NewMap gives %s (%v)", listDoc, lp, gotJ, gerr, wantJ, werr)
				}
			}
		}
	}
	info.ClassIf(strings.Contains(strings.Join(pairs, "|"), " "), "keys with leading/trailing blanks")
	info.ClassIf(nonEmpty >= 2, ">=2 pairs with non-empty results")
	info.ClassIf(mapVal, "a projected value is a map")
	info.NonTrivial(nonEmpty >= 2 && mapVal)
	return nil
}

func TestC12(t *testing.T) { runProp(t, "C12", genC12, checkC12) }

func asList(v interface{}) []interface{} {
	if l, ok := v.([]interface{}); ok {
		return l
	}
	return []interface{}{v}
}

// sortLists returns a copy of v in which every list is ordered by the canonical text of its members.
func sortLists(v interface{}) interface{} {
	switch x := v.(type) {
	case map[string]interface{}:
		out := make(map[string]interface{}, len(x))
		for k, e := range x {
			out[k] = sortLists(e)
		}
		return out
	case []interface{}:
		out := make([]interface{}, len(x))
		for i, e := range x {
			out[i] = sortLists(e)
		}
		sort.Slice(out, func(i, j int) bool { return canon(out[i]) < canon(out[j]) })
		return out
	}
	return v
}

// decodeAllXML decodes every root element of a text (a document, or the concatenation a root-less Map encodes to).
func decodeAllXML(doc []byte) []interface{} {
	var out []interface{}
	r := bytes.NewReader(doc)
	for i := 0; i < 10000; i++ {
		m, err := mxj.NewMapXmlReader(r)
		if err != nil {
			if err != io.EOF {
				out = append(out, "error: "+err.Error())
			}
			break
		}
		out = append(out, map[string]interface{}(m))
	}
	return out
}
