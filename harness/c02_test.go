package props

// C02 - XML -> Map -> XML -> Map is a fixed point; re-encoded XML is well formed.

import (
	"bytes"
	"strings"
	"testing"

	mxj "github.com/clbanning/mxj/v2"
	"pgregory.net/rapid"
)

type CaseC02 struct {
	Opts   Opts   `json:"opts"`
	Doc    *XElem `json:"doc"`
	Indent bool   `json:"indent"`
	Prefix string `json:"prefix"`
	Ind    string `json:"ind"`
}

func init() { register("C02", checkC02) }

func genC02(t *rapid.T) CaseC02 {
	o := genDecoderOpts(t, false)
	o.SeqNum = false // documented as asymmetric
	if o.AttrPrefix == "" {
		o.AttrPrefix = rapid.SampledFrom([]string{"-", "@", "attr_", "_"}).Draw(t, "nonemptyprefix")
		if o.KeyPrefix == o.AttrPrefix {
			o.KeyPrefix = "#"
		}
	}
	o.EncEscape = !o.DecEscape // value escaping is always on, on one side or the other
	o.Cast = rapid.Bool().Draw(t, "cast")
	o.NoCastFloat = rapid.Bool().Draw(t, "nocastfloat")
	o.NoCastBool = rapid.Bool().Draw(t, "nocastbool")
	o.GoEmpty = rapid.Bool().Draw(t, "goempty")
	g := XGen{Opts: o, MixedText: true, Namespaces: true, Wide: true}
	if o.Cast && rapid.Bool().Draw(t, "casttexts") {
		g.TextGen = genCastText
	}
	c := CaseC02{Opts: o, Doc: g.Elem(t, rapid.IntRange(1, 4).Draw(t, "depth"))}
	if rapid.IntRange(0, 7).Draw(t, "seqnames") == 0 {
		// tag sequence numbers are off here: an element called _seq and an attribute called seq are ordinary names
		first := true
		c.Doc.walk(func(e *XElem) {
			// (an element whose name begins with the attribute prefix would come back as an attribute: outside the domain)
			if !first && e.Prefix == "" && !strings.HasPrefix("_seq", o.AttrPrefix) && rapid.IntRange(0, 2).Draw(t, "seqelem") == 0 {
				e.Local = "_seq"
			}
			first = false
			for i := range e.Attrs {
				if e.Attrs[i].Prefix == "" && e.Attrs[i].Local != "xmlns" && rapid.IntRange(0, 2).Draw(t, "seqattr") == 0 {
					dup := false
					for j := range e.Attrs {
						dup = dup || (j != i && e.Attrs[j].Local == "seq")
					}
					if !dup {
						e.Attrs[i].Local = "seq"
					}
				}
			}
		})
	}
	c.Indent = rapid.Bool().Draw(t, "indent")
	blanks := []string{"", " ", "  ", "\t", "    ", " \t"}
	if o.KeepSpaces {
		blanks = []string{"", "\t", "\t\t"} // an indent of spaces is content under keep-spaces
	}
	c.Prefix = rapid.SampledFrom(blanks).Draw(t, "prefix")
	c.Ind = rapid.SampledFrom(blanks).Draw(t, "ind")
	return c
}

// mapClasses: list / text-plus-children / attribute-only / special value / cast leaf
func mapClasses(v interface{}, o Opts, out map[string]bool) {
	switch x := v.(type) {
	case map[string]interface{}:
		attrs, others, text := 0, 0, false
		for k, vv := range x {
			switch {
			case k == o.textK():
				text = true
			case o.AttrPrefix != "" && strings.HasPrefix(k, o.AttrPrefix):
				attrs++
			default:
				others++
			}
			mapClasses(vv, o, out)
		}
		if text && others > 0 {
			out["text plus children"] = true
		}
		if attrs > 0 && others == 0 && !text {
			out["attribute-only element"] = true
		}
	case []interface{}:
		out["list"] = true
		for _, vv := range x {
			mapClasses(vv, o, out)
		}
	case string:
		if strings.ContainsAny(x, "&<>\"'") || x != strings.TrimSpace(x) {
			out["special or blank-edged value"] = true
		}
	case float64, bool, int64, uint64:
		out["cast leaf"] = true
	}
}

func checkC02(c CaseC02, info *Info) *Failure {
	if c.Doc == nil {
		info.Skip = "empty case"
		return nil
	}
	if c.Opts.AttrPrefix == "" || c.Opts.SeqNum || c.Opts.CastInt {
		info.Skip = "asymmetric option combination (outside the domain)"
		return nil
	}
	doc := c.Doc.String()
	defer resetOptions()
	c.Opts.Apply()
	m1, err := mxj.NewMapXml([]byte(doc), c.Opts.Cast)
	if err != nil {
		return failf("decode-error", "opts %+v doc %q: %v", c.Opts, doc, err)
	}
	k, v := refDecode(c.Doc, c.Opts)
	if want := (map[string]interface{}{k: v}); !valEqual(map[string]interface{}(m1), want) {
		return failf("first-decode-mismatch", "opts %+v doc %q\n got  %#v\n want %#v", c.Opts, doc, m1, want)
	}
	before := copyMap(m1)
	var x []byte
	if c.Indent {
		x, err = m1.XmlIndent(c.Prefix, c.Ind)
	} else {
		x, err = m1.Xml()
	}
	if err != nil {
		return failf("encode-error", "opts %+v doc %q map %#v: %v", c.Opts, doc, m1, err)
	}
	// the other encoder, and other Maps, are encoded before the result is used
	if c.Indent {
		m1.Xml()
	} else {
		m1.XmlIndent(c.Prefix, c.Ind)
	}
	disturb()
	if werr := wellFormedSingleRoot(x); werr != nil {
		return failf("not-well-formed", "opts %+v doc %q -> %q: %v", c.Opts, doc, x, werr)
	}
	if !valEqual(map[string]interface{}(m1), before) {
		return failf("receiver-modified", "encoding changed the Map: %#v -> %#v", before, m1)
	}
	m2, err := mxj.NewMapXml(x, c.Opts.Cast)
	if err != nil {
		return failf("redecode-error", "opts %+v doc %q xml %q: %v", c.Opts, doc, x, err)
	}
	if !valEqual(map[string]interface{}(m1), map[string]interface{}(m2)) {
		return failf("not-a-fixed-point", "opts %+v indent=%v prefix=%q ind=%q\ndoc %q\nxml %q\n m1 %#v\n m2 %#v", c.Opts, c.Indent, c.Prefix, c.Ind, doc, x, m1, m2)
	}
	// the reader forms of the decoder see the re-encoded document the same way
	if mr, rerr := mxj.NewMapXmlReader(plainReader{bytes.NewReader(x)}, c.Opts.Cast); rerr != nil || !valEqual(map[string]interface{}(m1), map[string]interface{}(mr)) {
		return failf("not-a-fixed-point", "opts %+v: NewMapXmlReader of the re-encoded document %q gives %#v (%v), first Map %#v", c.Opts, x, mr, rerr, m1)
	}
	if mr, _, rerr := mxj.NewMapXmlReaderRaw(bytes.NewReader(x), c.Opts.Cast); rerr != nil || !valEqual(map[string]interface{}(m1), map[string]interface{}(mr)) {
		return failf("not-a-fixed-point", "opts %+v: NewMapXmlReaderRaw of the re-encoded document %q gives %#v (%v), first Map %#v", c.Opts, x, mr, rerr, m1)
	}
	cl := map[string]bool{}
	mapClasses(map[string]interface{}(m1), c.Opts, cl)
	for k := range cl {
		info.Class(k)
	}
	info.ClassIf(c.Indent, "indented encoder")
	info.ClassIf(c.Opts.DecEscape, "decoder-side escaping")
	info.ClassIf(c.Opts.Cast, "cast on")
	info.NonTrivial(len(cl) > 0)
	return nil
}

func TestC02(t *testing.T) { runProp(t, "C02", genC02, checkC02) }
