package props

// Package-level option sets: model, apply, restore-all-defaults.

import (
	"bytes"
	"encoding/json"
	"math"
	"os"
	"strconv"
	"strings"
	"sync"
	"time"

	mxj "github.com/clbanning/mxj/v2"
	"github.com/clbanning/mxj/v2/j2x"
	"github.com/clbanning/mxj/v2/x2j"
	x2jw "github.com/clbanning/mxj/v2/x2j-wrapper"
	"pgregory.net/rapid"
)

// Opts is one combination of the package-level options (documented meaning).
type Opts struct {
	AttrPrefix  string   `json:"attr_prefix"`
	KeyPrefix   string   `json:"key_prefix"` // global key prefix, default "#"
	Lower       bool     `json:"lower,omitempty"`
	Snake       bool     `json:"snake,omitempty"`
	SimpleAsMap bool     `json:"simple_as_map,omitempty"`
	KeepSpaces  bool     `json:"keep_spaces,omitempty"`
	SeqNum      bool     `json:"seq_num,omitempty"`
	DecEscape   bool     `json:"dec_escape,omitempty"`
	EncEscape   bool     `json:"enc_escape,omitempty"`
	Cast        bool     `json:"cast,omitempty"` // the cast argument of the decoder
	CastInt     bool     `json:"cast_int,omitempty"`
	NoCastFloat bool     `json:"no_cast_float,omitempty"`
	NoCastBool  bool     `json:"no_cast_bool,omitempty"`
	CastNanInf  bool     `json:"cast_nan_inf,omitempty"`
	SkipTags    []string `json:"skip_tags,omitempty"` // keys for which the skip-tag function answers true
	GoEmpty     bool     `json:"go_empty,omitempty"`
	CheckValid  bool     `json:"check_valid,omitempty"`
	ViaToggle   bool     `json:"via_toggle,omitempty"` // the boolean switches are brought to their values through the documented argument-less forms
}

func defaultOpts() Opts { return Opts{AttrPrefix: "-", KeyPrefix: "#"} }

func (o Opts) textK() string { return o.KeyPrefix + "text" }

func (o Opts) skip(key string) bool {
	for _, s := range o.SkipTags {
		if s == key {
			return true
		}
	}
	return false
}

// Apply sets every option of o (all others are expected to be at their defaults).
// Apply sets the options and then lets the bystanders run: what the library is asked to do between the moment an
// option is set and the call under test must not matter.
func (o Opts) Apply() {
	o.apply()
	bystanders()
}

// bystanders calls exported functions that are no option setters. None of them may change a package option or
// anything else a later call depends on (a function that switches an option for its own use must put it back exactly).
func bystanders() {
	// the wide battery first: the calls that FAIL come last, so that whatever a failed call leaves behind (a scratch
	// buffer not emptied, an option not put back) is met by the call under test and not by another bystander
	bystandersRemote()
	mxj.BeautifyXml([]byte(`<a x="1"><!--c--><b>1 &amp; 2</b><c/></a>`), "", " ")
	mxj.NewMapFormattedXmlSeq([]byte("<a>\n <b>1</b>\n</a>"))
	mxj.AnyXmlIndent([]interface{}{"x", map[string]interface{}{"k": "<"}}, "", " ")
	byMap := mxj.Map{"n": map[string]interface{}{"l": []interface{}{map[string]interface{}{"k": "y", "-a": "1"}, "s"}, "t": "1.5"}}
	byMap.Copy()
	byMap.LeafNodes(true)
	byMap.NewMap("n.t:m")
	byMap.XmlWriter(&bytes.Buffer{})
	byMap.JsonWriterRaw(&bytes.Buffer{})
	byMap.Gob()
	byMap.StringIndent()
	mxj.NewMapXmlReaderRaw(strings.NewReader("<a>1</a><b>2</b>"))
	mxj.NewMapJsonReader(strings.NewReader(`{"a":1} {"b":2}`))
	mxj.HandleXmlReader(strings.NewReader("<a>1</a>"), func(mxj.Map) bool { return true }, func(error) bool { return true })
	j2x.JsonToXml([]byte(`{"a":{"b":1.5}}`))
	j2x.JsonUpdateValsForPath([]byte(`{"a":{"b":1,"c":2}}`), "b:3", "a.b", "c:2:num")
	x2j.XmlToJson([]byte(`<a x="1">t</a>`))
	x2j.XmlValuesForPath([]byte(`<a><b>1</b></a>`), "a.b")
	x2jw.DocToMap(`<a x="1">t</a>`, true)
	x2jw.DocToJson(`<a>1</a>`)
	// ... and calls that FAIL: an error path must leave the package state alone as well
	j2x.JsonToXml([]byte(`{"a":`))
	j2x.JsonToXmlWriter([]byte(`{"a":1,}`), &bytes.Buffer{})
	j2x.JsonUpdateValsForPath([]byte(`{"a"`), "b:3", "a.b")
	x2j.XmlToJson([]byte(`<a><b></a>`))
	x2j.XmlValuesForPath([]byte(`<a`), "a.b")
	x2jw.DocToMap(`<a x=1>`, true)
	x2jw.DocToJson(`</a>`)
	mxj.NewMapXml([]byte(`<a><b>1</a>`), true)
	mxj.NewMapXmlSeq([]byte(`<a><!-- c`))
	mxj.NewMapJson([]byte(`{"a":1e999}`))
	mxj.BeautifyXml([]byte(`<a><b></a>`), "", " ")
	(mxj.Map{"r": map[string]interface{}{"-a": []interface{}{1}}}).Xml()
	(mxj.Map{"f": math.Inf(1)}).Json()
	byMap.UpdateValuesForPath("k:v:nosuchtype", "n.l")
	byMap.NewMap("a:b:c")
	byMap.ValuesForPath("n.l[x]")
}

var bystanderFiles struct {
	once      sync.Once
	xml, json string
}

type bystanderStruct struct {
	A int
	B string
}

// bystandersRemote: the rest of the exported surface - lookups of the wrapper packages with attribute filters,
// AnyXml over every kind of argument (also lists whose members fail half-way), the Maps file readers, updates whose
// new value looks like an argument of something else, keypairs NewMap rejects, copies of Maps holding json.Number,
// struct conversion of values that are no JSON objects, sub-key conditions and values full of characters XML escapes.
func bystandersRemote() {
	bystanderFiles.once.Do(func() {
		dir := os.Getenv("VERIF_SCRATCH")
		if dir == "" {
			dir = os.TempDir()
		}
		if f, err := os.CreateTemp(dir, "bystander-*.xml"); err == nil {
			f.WriteString("<a x=\"1\"> <b> t &amp; u </b> </a>\n<c>\u00a02\u00a0</c>\n")
			f.Close()
			bystanderFiles.xml = f.Name()
		}
		if f, err := os.CreateTemp(dir, "bystander-*.json"); err == nil {
			f.WriteString(`{"a":{"b":[1,2.5,"x"]}} {"c":12345678901234567890}`)
			f.Close()
			bystanderFiles.json = f.Name()
		}
	})
	const doc = `<a><b id="1" n="x &amp; y">x</b><b id="2">say "hi" &lt;now&gt;</b><c><d>1</d></c></a>`
	x2jw.DocValue(doc, "a.b", "id:2")
	x2jw.DocValue(doc, "a.b", "id:2", "n:x")
	x2jw.DocValue(doc, "a.c.d")
	x2jw.DocValue(doc, "a.nosuch", "id:1")
	x2jw.DocValue(`<a><b id=`, "a.b", "id:1")
	x2jw.ValuesFromTagPath(doc, "a.*", true)
	x2jw.ValuesAtTagPath(doc, "a.b", true)
	x2jw.ValuesForTag(doc, "d")
	x2jw.PathsForTag(doc, "d")
	x2jw.PathForTagShortest(doc, "id")
	x2jw.ToJsonIndent(strings.NewReader(doc), true)
	x2jw.XmlMsgsFromReaderAsJson(strings.NewReader(doc+doc), func(string) bool { return true }, func(error) bool { return true })
	x2jw.XmlBufferToMap(bytes.NewBufferString(doc))
	x2jw.NewAttributeMap("id:1", "bad")
	x2jw.WriteMap(map[string]interface{}{"a": []interface{}{1, "x"}})
	var st bystanderStruct
	x2jw.Unmarshal([]byte(`<doc><A>1</A><B>x</B></doc>`), &st)
	mxj.AnyXmlIndent(map[string]interface{}{"k": "a & b", "-id": "\"q\""}, "", "  ", "root")
	mxj.AnyXml(map[string]interface{}{"k": "<"}, "root")
	mxj.AnyXml([]interface{}{bystanderStruct{1, "&"}, "x", map[string]interface{}{"e": ""}}, "list", "item")
	mxj.AnyXml([]interface{}{bystanderStruct{1, "x"}, map[string]interface{}{"-id": []interface{}{1}}, map[string]interface{}{"e": ""}})
	mxj.AnyXmlIndent([]interface{}{bystanderStruct{1, "x"}, map[string]interface{}{"-id": []interface{}{1}}}, "", " ")
	for _, bad := range []interface{}{map[string]interface{}{"-id": []interface{}{1.0}, "k": "v"}, map[string]interface{}{"-id": map[string]interface{}{"x": 1}, "k": 1}, map[string]interface{}{"k": func() {}}, func() {}, make(chan int), map[string]interface{}{"k": []interface{}{map[string]interface{}{"-a": []interface{}{"x"}, "b": ""}}}} {
		// lists whose members fail half-way, before and after members of every other kind
		mxj.AnyXml([]interface{}{bystanderStruct{1, ""}, bad, "s"})
		mxj.AnyXml([]interface{}{"s", map[string]interface{}{"e": ""}, bad, bystanderStruct{1, ""}})
		mxj.AnyXmlIndent([]interface{}{bystanderStruct{1, ""}, map[string]interface{}{"e": ""}, bad}, "", " ")
		mxj.AnyXml(bad, "r")
		mxj.AnyXml(map[string]interface{}{"m": bad}, "r")
		(mxj.Map{"r": map[string]interface{}{"e": "", "m": bad}}).Xml()
		(mxj.Map{"r": map[string]interface{}{"e": "", "m": bad}}).XmlIndent("", " ")
		(mxj.Map{"r": map[string]interface{}{"e": "", "m": bad}}).Json()
	}
	mxj.AnyXml(bystanderStruct{2, "y"})
	mxj.AnyXml(nil)
	mxj.AnyXml(1.5, "n")
	mxj.AnyXmlIndent(func() {}, "", " ")
	if bystanderFiles.xml != "" {
		mxj.NewMapsFromXmlFile(bystanderFiles.xml)
		mxj.NewMapsFromXmlFileRaw(bystanderFiles.xml)
		mxj.NewMapsFromXmlFile(bystanderFiles.xml + ".nosuch")
	}
	if bystanderFiles.json != "" {
		mxj.NewMapsFromJsonFile(bystanderFiles.json)
		mxj.NewMapsFromJsonFileRaw(bystanderFiles.json)
		mxj.NewMapsFromXmlFile(bystanderFiles.json)
		mxj.NewMapsFromJsonFile(bystanderFiles.xml)
	}
	ms := mxj.Maps{mxj.Map{"a": map[string]interface{}{"-x": "1", "e": ""}}, mxj.Map{"b": "<&>"}}
	ms.XmlString()
	ms.XmlStringIndent("", " ")
	ms.JsonString()
	ms.JsonStringIndent("", " ", true)
	up := mxj.Map{"n": map[string]interface{}{"l": []interface{}{map[string]interface{}{"k": "y", "url": "http://a.org/", "-a": "Tom & Jerry"}, "s"}, "t": "AT&T", "e": map[string]interface{}{}}}
	for _, nv := range []interface{}{"|home|http://x/", ",a,b", ";k;v", "~k~v", "^k^v", "=k=v", ":k:v", "k:v:", "k::", "k:1:num", "k:true:bool", "*:1", map[string]interface{}{"k": "z"}, map[string]interface{}{}, mxj.Map{"k": 1}} {
		up.UpdateValuesForPath(nv, "n.l")
		up.UpdateValuesForPath(nv, "n.l", "k:y")
		up.UpdateValuesForPath(nv, "n.nosuch")
	}
	for _, kp := range []string{"*", "*:x", "x:*", "n.*:m", "n.l[0]:m", ":", "a:", ":b", "n.t", "n.t:", "n.t:x.", "n.t:.x", "n.l:q", "n.e:q.r", "n.t:q.r.s"} {
		up.NewMap(kp)
		up.NewMap("n.l:q", kp)
	}
	up.NewMap("n.l:q", "n.t:q.k")
	up.NewMap("n:q", "n.t:q.e.k")
	for _, sk := range []string{"-a:Tom & Jerry", "-a:Tom &amp; Jerry", "url:http://a.org/", "!url:http://a.org/", "k:y:string", "k:*", "!k:*", "t:AT&T", "k:<", "k:\"", "nosuch:&lt;&amp;"} {
		up.ValuesForKey("l", sk)
		up.ValuesForPath("n.l", sk)
		up.ValuesForPath("n", sk)
		up.Exists("n.l", sk)
		up.UpdateValuesForPath("k:y", "n.l", sk)
	}
	up.Json()
	up.Json(true)
	up.JsonIndent("", " ")
	up.Xml()
	up.XmlIndent("", " ")
	for _, p := range []string{"n.e", "n.t", "n.l", "n.l[0]", "n.l[5]", "n.*", "nosuch", "", "n.", ".n"} {
		up.Exists(p)
		up.ValueForPath(p)
		up.ValueForPathString(p)
		up.PathsForKey(p)
		up.PathForKeyShortest(p)
	}
	up.Copy()
	cp, _ := up.Copy()
	cp.RenameKey("n.t", "e")
	cp.RenameKey("n.t", "u")
	cp.SetValueForPath("v", "n.u")
	cp.Remove("n.u")
	cp.Remove("n.nosuch.deeper")
	cp.SetValueForPath("v", "n.nosuch.deeper")
	up.LeafPaths()
	up.LeafValues()
	up.Root()
	up.Elements("n")
	up.Attributes("n.l[0]")
	nm := mxj.Map{"n": json.Number("12345678901234567890"), "l": []interface{}{json.Number("1"), map[string]interface{}{"f": json.Number("2.50")}}}
	nm.Copy()
	nm.Json()
	nm.Xml()
	(mxj.Map{"big": 1.7976931348623157e308, "small": 5e-324, "i": int64(1) << 62}).Copy()
	mxj.NewMapStruct(time.Unix(0, 0))
	mxj.NewMapStruct(bystanderStruct{1, "x"})
	mxj.NewMapStruct(&bystanderStruct{1, "x"})
	mxj.NewMapStruct(3)
	mxj.NewMapStruct(nil)
	mxj.NewMapStruct([]int{1})
	(mxj.Map{"A": 1, "B": "x"}).Struct(&st)
	(mxj.Map{"A": "notanint"}).Struct(&st)
	(mxj.Map{"A": 1}).Struct(st)
	sq, _ := mxj.NewMapXmlSeq([]byte(`<a x="1"><!--c--><b> t </b><?pi d?><b>"q" &amp; 'r'</b></a>`))
	sq.Xml()
	sq.XmlIndent("", " ")
	sq.XmlWriter(&bytes.Buffer{})
	mxj.NewMapXmlSeqReaderRaw(strings.NewReader("<a> 1 </a> <b/>"))
	mxj.HandleJsonReader(strings.NewReader(`{"a":1}[`), func(mxj.Map) bool { return true }, func(error) bool { return false })
	mxj.HandleJsonReaderRaw(strings.NewReader(`{"a":12345678901234567890}`), func(mxj.Map, []byte) bool { return true }, func(error, []byte) bool { return false })
	j2x.JsonNewJson([]byte(`{"a":{"b":"<&>"}}`), "a.b:c")
	j2x.JsonPathsForKey([]byte(`{"a":{"b":1}}`), "b")
	j2x.JsonLeafPath([]byte(`{"a":{"b":[1,2]}}`))
	j2x.JsonLeafValues([]byte(`{"a":{"b":[1,2]}}`))
	x2j.XmlNewXml([]byte(`<a><b>x &amp; y</b></a>`), "a.b:c")
	x2j.XmlUpdateValsForPath([]byte(`<a><b>x &amp;amp; y</b><c>1</c></a>`), "c:2", "a")
	x2j.XmlLeafPath([]byte(`<a><b>1</b><b>2</b></a>`))
}

func (o Opts) apply() {
	if o.ViaToggle {
		// "no argument toggles the flag": set the opposite, then toggle. DisableTrimWhiteSpace is the documented
		// exception: without an argument it DISABLES trimming, so it is called on top of the explicit form.
		mxj.CoerceKeysToLower(!o.Lower)
		mxj.CoerceKeysToLower()
		mxj.CoerceKeysToSnakeCase(!o.Snake)
		mxj.CoerceKeysToSnakeCase()
		mxj.DecodeSimpleValuesAsMap(!o.SimpleAsMap)
		mxj.DecodeSimpleValuesAsMap()
		mxj.IncludeTagSeqNum(!o.SeqNum)
		mxj.IncludeTagSeqNum()
		mxj.CastValuesToInt(!o.CastInt)
		mxj.CastValuesToInt()
		mxj.CastValuesToFloat(o.NoCastFloat)
		mxj.CastValuesToFloat()
		mxj.CastValuesToBool(o.NoCastBool)
		mxj.CastValuesToBool()
		mxj.CastNanInf(!o.CastNanInf)
		mxj.CastNanInf()
		if o.KeepSpaces {
			mxj.DisableTrimWhiteSpace(true)
			mxj.DisableTrimWhiteSpace()
		}
	}
	o.applyExplicit(o.ViaToggle)
}

func (o Opts) applyExplicit(skipToggled bool) {
	setAttrPrefixBy(o.AttrPrefix, o.ViaToggle)
	mxj.SetGlobalKeyMapPrefix(o.KeyPrefix)
	if !skipToggled {
		mxj.CoerceKeysToLower(o.Lower)
	}
	if !skipToggled {
		mxj.CoerceKeysToSnakeCase(o.Snake)
	}
	if !skipToggled {
		mxj.DecodeSimpleValuesAsMap(o.SimpleAsMap)
	}
	if !skipToggled || !o.KeepSpaces {
		mxj.DisableTrimWhiteSpace(o.KeepSpaces)
	}
	if !skipToggled {
		mxj.IncludeTagSeqNum(o.SeqNum)
	}
	mxj.XMLEscapeChars(false)
	mxj.XMLEscapeCharsDecoder(o.DecEscape)
	if o.EncEscape {
		mxj.XMLEscapeChars(true)
	}
	if !skipToggled {
		mxj.CastValuesToInt(o.CastInt)
		mxj.CastValuesToFloat(!o.NoCastFloat)
		mxj.CastValuesToBool(!o.NoCastBool)
		mxj.CastNanInf(o.CastNanInf)
	}
	if len(o.SkipTags) > 0 {
		tags := append([]string(nil), o.SkipTags...)
		mxj.SetCheckTagToSkipFunc(func(k string) bool {
			for _, s := range tags {
				if s == k {
					return true
				}
			}
			return false
		})
	} else {
		mxj.SetCheckTagToSkipFunc(nil)
	}
	if o.GoEmpty {
		mxj.XmlGoEmptyElemSyntax()
	} else {
		mxj.XmlDefaultEmptyElemSyntax()
	}
	mxj.XmlCheckIsValid(o.CheckValid)
}

// resetOptions puts every package-level option back to its documented default.
func resetOptions() {
	defaultOpts().apply()
	mxj.HandleXMPPStreamTag(false)
	mxj.SetFieldSeparator()
	mxj.SetArraySize(0)
	mxj.LeafUseDotNotation(false)
	mxj.JsonUseNumber = false
	mxj.CustomDecoder = nil
	mxj.XmlCharsetReader = nil
}

// ---- key folding and casting as documented ----

func foldKey(s string, o Opts) string {
	if o.Snake {
		s = strings.ReplaceAll(s, "-", "_")
	}
	if o.Lower {
		s = strings.ToLower(s)
	}
	return s
}

func attrKey(local string, o Opts) string {
	k := o.AttrPrefix + foldKey(local, o)
	if o.Lower {
		k = strings.ToLower(k)
	}
	return k
}

var nanInfSpellings = map[string]bool{"nan": true, "inf": true, "+inf": true, "-inf": true, "infinity": true, "+infinity": true, "-infinity": true}

// isNanInfSpelling: does strconv.ParseFloat read s as NaN or an infinity by name?
func isNanInfSpelling(s string) bool { return nanInfSpellings[strings.ToLower(s)] }

var boolSpellings = map[string]bool{"t": true, "T": true, "TRUE": true, "true": true, "True": true, "f": false, "F": false, "FALSE": false, "false": false, "False": false}

// refCast is the documented cast decision chain (C14), written over strconv.
func refCast(s string, o Opts, key string) interface{} {
	if !o.Cast {
		return s
	}
	if o.skip(key) {
		return s
	}
	if !o.CastNanInf && isNanInfSpelling(s) {
		return s
	}
	if o.CastInt {
		if i, err := strconv.ParseInt(s, 10, 64); err == nil {
			return i
		}
		if u, err := strconv.ParseUint(s, 10, 64); err == nil {
			return u
		}
	}
	if !o.NoCastFloat {
		if f, err := strconv.ParseFloat(s, 64); err == nil {
			return f
		}
	}
	if !o.NoCastBool {
		if b, ok := boolSpellings[s]; ok {
			return b
		}
	}
	return s
}

func mxjEsc(s string) string {
	r := strings.NewReplacer("&", "&amp;", "<", "&lt;", ">", "&gt;", `"`, "&quot;", "'", "&apos;")
	return r.Replace(s)
}

// ---- generators of option sets ----

var attrPrefixes = []string{"-", "-", "@", "attr_", "", "_"}
var keyPrefixes = []string{"#", "#", "$", "%", "_"}

func genDecoderOpts(t *rapid.T, withCast bool) Opts {
	o := Opts{
		AttrPrefix:  rapid.SampledFrom(attrPrefixes).Draw(t, "attrprefix"),
		KeyPrefix:   rapid.SampledFrom(keyPrefixes).Draw(t, "keyprefix"),
		Lower:       rapid.Bool().Draw(t, "lower"),
		Snake:       rapid.Bool().Draw(t, "snake"),
		SimpleAsMap: rapid.Bool().Draw(t, "simplemap"),
		KeepSpaces:  rapid.Bool().Draw(t, "keepspaces"),
		SeqNum:      rapid.Bool().Draw(t, "seqnum"),
		DecEscape:   rapid.Bool().Draw(t, "decescape"),
	}
	if o.KeyPrefix == o.AttrPrefix { // the property requires them to be distinct
		o.KeyPrefix = "#"
	}
	o.ViaToggle = rapid.IntRange(0, 3).Draw(t, "viatoggle") == 0
	if withCast {
		o.Cast = rapid.Bool().Draw(t, "cast")
		o.CastInt = rapid.Bool().Draw(t, "castint")
		o.NoCastFloat = rapid.Bool().Draw(t, "nocastfloat")
		o.NoCastBool = rapid.Bool().Draw(t, "nocastbool")
		o.CastNanInf = rapid.Bool().Draw(t, "castnaninf")
	}
	return o
}

// applyUnrelatedOptions switches on package options that are not documented to influence the path/key queries,
// the update functions or NewMap (decoder, encoder and cast switches, prefixes); the checks of those properties run
// under them with unchanged expectations. sel == 0 leaves everything at its default.
func applyUnrelatedOptions(sel uint32) {
	if sel == 0 {
		bystanders()
		return
	}
	bit := func(i uint) bool { return sel&(1<<i) != 0 }
	mxj.CoerceKeysToLower(bit(0))
	mxj.CoerceKeysToSnakeCase(bit(1))
	mxj.DecodeSimpleValuesAsMap(bit(2))
	mxj.DisableTrimWhiteSpace(bit(3))
	mxj.IncludeTagSeqNum(bit(4))
	if bit(5) {
		mxj.XMLEscapeCharsDecoder(true)
	} else if bit(6) {
		mxj.XMLEscapeChars(true)
	}
	mxj.CastValuesToInt(bit(7))
	mxj.CastValuesToFloat(!bit(8))
	mxj.CastValuesToBool(!bit(9))
	mxj.CastNanInf(bit(10))
	if bit(11) {
		mxj.XmlGoEmptyElemSyntax()
	}
	mxj.HandleXMPPStreamTag(bit(12))
	if bit(13) {
		mxj.SetAttrPrefix("attr_")
	}
	if bit(14) {
		mxj.SetGlobalKeyMapPrefix("$")
	}
	defer bystanders()
	mxj.LeafUseDotNotation(bit(16)) // concerns the paths LeafNodes reports, nothing else
	if bit(15) {
		mxj.SetCheckTagToSkipFunc(func(string) bool { return true })
	}
}

func genUnrelated(t *rapid.T) uint32 {
	if rapid.IntRange(0, 2).Draw(t, "unrelatedopts") > 0 {
		return 0
	}
	return uint32(rapid.Uint16().Draw(t, "optbits")) | uint32(rapid.IntRange(0, 1).Draw(t, "optbits2"))<<16
}

// underOtherOptions runs call() - typically a wrapper call with the very bytes the check is about to use - while two
// decoder options differ from the ones in force (attribute prefix, tag sequence numbers), then puts both back exactly.
// What a function remembers about a document must not outlive a change of the options.
func underOtherOptions(call func()) {
	st := mxj.VerifOptionState()
	prefix, _ := st["attrPrefix"].(string)
	seq, _ := st["includeTagSeqNum"].(bool)
	mxj.SetAttrPrefix("zz_")
	mxj.IncludeTagSeqNum(!seq)
	call()
	mxj.IncludeTagSeqNum(seq)
	mxj.SetAttrPrefix(prefix)
}

// setAttrPrefixBy brings the attribute prefix to p; for "" and "-" the documented alternative PrependAttrWithHyphen is
// used when alt is set (PrependAttrWithHyphen(false) "is the same as SetAttrPrefix("")").
func setAttrPrefixBy(p string, alt bool) {
	switch {
	case alt && p == "":
		mxj.PrependAttrWithHyphen(false)
	case alt && p == "-":
		mxj.SetAttrPrefix("zz") // something else first, so that the call below has work to do
		mxj.PrependAttrWithHyphen(true)
	default:
		mxj.SetAttrPrefix(p)
	}
}

// optionDetour changes package options and puts every one of them back to its default through the documented calls
// (another route than resetOptions takes): afterwards every function behaves as in a fresh process.
func optionDetour(sel int) {
	switch sel % 8 {
	case 1:
		mxj.SetAttrPrefix("attr_")
		mxj.SetAttrPrefix("-")
	case 2:
		mxj.PrependAttrWithHyphen(false)
		mxj.SetAttrPrefix("-")
	case 3:
		mxj.SetAttrPrefix("@@")
		mxj.PrependAttrWithHyphen(true)
	case 4:
		mxj.SetGlobalKeyMapPrefix("_")
		mxj.SetGlobalKeyMapPrefix("#")
	case 5:
		mxj.SetFieldSeparator("|")
		mxj.SetFieldSeparator()
	case 6:
		mxj.LeafUseDotNotation(true)
		mxj.LeafUseDotNotation()
	case 7:
		mxj.XMLEscapeChars(true)
		mxj.XMLEscapeCharsDecoder(true)
		mxj.XMLEscapeCharsDecoder(false)
	}
}

// flipOne changes exactly ONE decoder option through its own setter - no other setter is called - and returns the
// option set that is in force afterwards. Whatever the library derives from its options (snapshots, tables, caches)
// must follow every single setter.
func (o Opts) flipOne(i int) Opts {
	switch i % 11 {
	case 0:
		o.Lower = !o.Lower
		mxj.CoerceKeysToLower(o.Lower)
	case 1:
		o.Snake = !o.Snake
		mxj.CoerceKeysToSnakeCase(o.Snake)
	case 2:
		o.SimpleAsMap = !o.SimpleAsMap
		mxj.DecodeSimpleValuesAsMap(o.SimpleAsMap)
	case 3:
		o.KeepSpaces = !o.KeepSpaces
		mxj.DisableTrimWhiteSpace(o.KeepSpaces)
	case 4:
		o.SeqNum = !o.SeqNum
		mxj.IncludeTagSeqNum(o.SeqNum)
	case 5:
		o.DecEscape = !o.DecEscape
		if o.DecEscape {
			o.EncEscape = false // the documented interlock
		}
		mxj.XMLEscapeCharsDecoder(o.DecEscape)
	case 6:
		if o.AttrPrefix == "@" {
			o.AttrPrefix = "-"
		} else {
			o.AttrPrefix = "@"
		}
		mxj.SetAttrPrefix(o.AttrPrefix)
	case 7:
		o.CastInt = !o.CastInt
		mxj.CastValuesToInt(o.CastInt)
	case 8:
		o.NoCastFloat = !o.NoCastFloat
		mxj.CastValuesToFloat(!o.NoCastFloat)
	case 9:
		o.NoCastBool = !o.NoCastBool
		mxj.CastValuesToBool(!o.NoCastBool)
	case 10:
		o.CastNanInf = !o.CastNanInf
		mxj.CastNanInf(o.CastNanInf)
	}
	return o
}
