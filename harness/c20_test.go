package props

// C20 - the legacy x2j, j2x and x2j-wrapper packages agree with the core they wrap.

import (
	"bytes"
	"encoding/json"
	"fmt"
	"io"
	"os"
	"reflect"
	"sort"
	"strconv"
	"strings"
	"testing"
	"unicode/utf16"

	mxj "github.com/clbanning/mxj/v2"
	"github.com/clbanning/mxj/v2/j2x"
	"github.com/clbanning/mxj/v2/x2j"
	x2jw "github.com/clbanning/mxj/v2/x2j-wrapper"
	"pgregory.net/rapid"
)

type CaseC20 struct {
	Doc    *XElem                 `json:"doc"`
	Value  map[string]interface{} `json:"value"`
	Key    string                 `json:"key"`   // key for the Value-side functions
	Tag    string                 `json:"tag"`   // key for the Doc-side functions
	Steps  []Step                 `json:"steps"` // plain/wildcard path into Value
	DPath  []string               `json:"dpath"` // plain/wildcard path into the decoded Doc
	Safe   bool                   `json:"safe"`
	Recast bool                   `json:"recast"`
	Sub    []Cond                 `json:"sub,omitempty"`
	Bulk   int                    `json:"bulk,omitempty"` // the message handler of the stream wrappers returns false at this message (0: never, -1: clause off)
	NanInf bool                   `json:"nan_inf,omitempty"`
}

func init() { register("C20", checkC20) }

func genC20(t *rapid.T) CaseC20 {
	var c CaseC20
	g := XGen{Opts: defaultOpts(), MixedText: true, Namespaces: true}
	if rapid.Bool().Draw(t, "casttexts") {
		g.TextGen = genCastText
	}
	c.Doc = g.Elem(t, 3)
	switch rapid.IntRange(0, 6).Draw(t, "vsrc") {
	case 6:
		// the empty string as a member name on the way to the key
		c.Value, c.Steps, c.Key = boostEmptyKey(t)
		for i := range c.Steps {
			c.Steps[i].Index = -1
		}
	case 0:
		// the key occurs at two depths on one branch
		k := rapid.SampledFrom(shapeKeys).Draw(t, "k")
		k2 := rapid.SampledFrom(shapeKeys).Draw(t, "k2")
		inner := map[string]interface{}{k: instScalar(t), k2: map[string]interface{}{k: instScalar(t)}}
		c.Value = map[string]interface{}{"a": map[string]interface{}{k: inner, "-id": "1"}, "o": []interface{}{map[string]interface{}{k: map[string]interface{}{k: "x"}}}}
		c.Key = k
		c.Steps = []Step{{"a", -1}, {k, -1}, {rapid.SampledFrom([]string{k, k2, "*"}).Draw(t, "s3"), -1}}
	case 1:
		c.Value, c.Steps, c.Key = boostLIL(t)
	case 2:
		// an attribute-like key holding a container, reached through an interior wildcard (a JSON-only shape)
		k := rapid.SampledFrom(shapeKeys).Draw(t, "k")
		c.Value = map[string]interface{}{"a": map[string]interface{}{
			"-m": map[string]interface{}{k: instScalar(t), "z": map[string]interface{}{k: "deep"}},
			"b":  map[string]interface{}{k: instScalar(t), "-n": []interface{}{map[string]interface{}{k: "in-attr-list"}}},
			"l":  []interface{}{map[string]interface{}{k: instScalar(t)}, map[string]interface{}{"-q": map[string]interface{}{k: "x"}}},
		}}
		c.Key = k
		switch rapid.IntRange(0, 3).Draw(t, "wp") {
		case 0:
			c.Steps = []Step{{"a", -1}, {"*", -1}, {k, -1}}
		case 1:
			c.Steps = []Step{{"a", -1}, {"*", -1}, {"*", -1}, {k, -1}}
		case 2:
			c.Steps = []Step{{"*", -1}, {"*", -1}, {"z", -1}, {k, -1}}
		default:
			c.Steps = []Step{{"a", -1}, {"l", -1}, {"*", -1}, {k, -1}}
		}
	default:
		sh := genRootShape(t, rapid.IntRange(0, 4).Draw(t, "lil") == 0)
		c.Value = instantiate(t, sh).(map[string]interface{})
		decorate(t, c.Value, "-")
		c.Steps = genShapePath(t, sh, false)
		c.Key = rapid.SampledFrom(shapeKeys).Draw(t, "key")
	}
	if rapid.Bool().Draw(t, "specials") {
		c.Value["sp"] = rapid.SampledFrom([]string{"a<b", "x & y", "<&>", "q>"}).Draw(t, "spv")
	}
	c.Tag = rapid.SampledFrom(xmlNames).Draw(t, "tag")
	n := rapid.IntRange(1, 4).Draw(t, "dplen")
	for i := 0; i < n; i++ {
		c.DPath = append(c.DPath, rapid.SampledFrom(append([]string{"*", "*"}, xmlNames...)).Draw(t, "dseg"))
	}
	if rapid.IntRange(0, 2).Draw(t, "rooted") > 0 {
		c.DPath[0] = c.Doc.Local
	}
	c.Bulk = rapid.IntRange(-1, 3).Draw(t, "bulk")
	c.Safe = rapid.Bool().Draw(t, "safe")
	c.NanInf = rapid.IntRange(0, 3).Draw(t, "naninf") == 0
	c.Recast = rapid.Bool().Draw(t, "recast")
	if rapid.IntRange(0, 3).Draw(t, "withsub") == 0 {
		c.Sub = genCondsFrom(t, 1, 2, refEval(c.Value, c.Steps))
	}
	return c
}

// refEvalNoAttrs: path semantics with '-' entries skipped at wildcard steps.
func refEvalNoAttrs(root map[string]interface{}, steps []string) []interface{} {
	strip := func(m map[string]interface{}) map[string]interface{} {
		o := map[string]interface{}{}
		for k, v := range m {
			if !strings.HasPrefix(k, "-") {
				o[k] = v
			}
		}
		return o
	}
	cur := []interface{}{root}
	for _, s := range steps {
		if s == "*" {
			var stripped []interface{}
			for _, v := range cur {
				switch x := v.(type) {
				case map[string]interface{}:
					stripped = append(stripped, strip(x))
				case []interface{}:
					l := make([]interface{}, len(x))
					for i, mem := range x {
						if mm, ok := mem.(map[string]interface{}); ok {
							l[i] = strip(mm)
						} else {
							l[i] = mem
						}
					}
					stripped = append(stripped, l)
				default:
					stripped = append(stripped, v)
				}
			}
			cur = stripped
		}
		cur = stepPlain(cur, s)
	}
	return expandLists(cur)
}

func strSet(s []string) []string {
	o := append([]string(nil), s...)
	sort.Strings(o)
	return o
}

func leafKey(ls []mxj.LeafNode) []string {
	o := make([]string, len(ls))
	for i, l := range ls {
		o[i] = fmt.Sprintf("%s=%#v", l.Path, l.Value)
	}
	sort.Strings(o)
	return o
}

func eqErr(a, b error) bool { return (a == nil) == (b == nil) }

func checkC20(c CaseC20, info *Info) *Failure {
	if c.Doc == nil || c.Value == nil || len(c.Steps) == 0 || len(c.DPath) == 0 {
		info.Skip = "empty case"
		return nil
	}
	defer resetOptions()
	if c.NanInf {
		// one decoder option the wrappers have a say in as well (x2j-wrapper has its own CastNanInf): set in the core,
		// it is in force for the wrappers' decoding too
		mxj.CastNanInf(true)
		info.Class("CastNanInf in force")
	}
	doc := []byte(c.Doc.String())
	dpath := strings.Join(c.DPath, ".")
	vpath := pathString(c.Steps)
	sp := specs(c.Sub, ":")
	mism := func(fn string, got, want interface{}) *Failure {
		return failf("wrapper-mismatch", "%s\n doc   %q\n value %s\n key %q tag %q path %q dpath %q sub %q\n got  %v\n want %v", fn, doc, canon(c.Value), c.Key, c.Tag, vpath, dpath, sp, got, want)
	}
	core, err := mxj.NewMapXml(doc)
	if err != nil {
		return failf("decode-error", "%v", err)
	}
	// (no bystanders here: the oracle of this check is the core itself, and a bystander wrapper call that disturbs an
	// option would disturb reference and subject alike - C18 watches the option state around every non-setter)
	// A wrapper that returns JSON text and takes no safe-encoding flag may spell it like Map.Json() or like
	// Map.Json(true) - both are "the documented composition of core functions" (leniency 17); the whole text must be
	// one of the two.
	eitherJ := func(got []byte, m mxj.Map) bool {
		a, _ := m.Json()
		b, _ := m.Json(true)
		return bytes.Equal(got, a) || bytes.Equal(got, b)
	}
	eitherJI := func(got []byte, m mxj.Map) bool {
		a, _ := m.JsonIndent("", "  ")
		b, _ := m.JsonIndent("", "  ", true)
		return bytes.Equal(got, a) || bytes.Equal(got, b)
	}
	coreCast, _ := mxj.NewMapXml(doc, true)
	// from here on the document sits in a buffer that held another document of the same length a moment ago, and the
	// wrappers were called with that one: what a wrapper keeps between calls must be its own copy
	doc = reuseBuffer(doc, true, func(b []byte) {
		x2j.XmlToMap(b)
		x2j.XmlToJson(b)
		x2j.XmlValuesForPath(b, dpath)
		x2j.XmlValuesForTag(b, c.Tag)
		x2j.XmlPathsForTag(b, c.Tag)
		x2j.XmlLeafNodes(b)
		x2jw.ByteDocToMap(b)
		x2jw.ByteDocToJson(b)
	})
	nonEmpty := 0
	ne := func(n int) {
		if n > 0 {
			nonEmpty++
		}
	}

	// ---------------- x2j (thin wrappers over the decoded document)
	if m, e := x2j.XmlToMap(doc); e != nil || !reflect.DeepEqual(m, map[string]interface{}(core)) {
		return mism("x2j.XmlToMap", m, core)
	}
	wantX, _ := core.Xml()
	if x, e := x2j.MapToXml(map[string]interface{}(core)); e != nil || !bytes.Equal(x, wantX) {
		return mism("x2j.MapToXml", string(x), string(wantX))
	}
	wantJ, _ := core.Json(c.Safe)
	if j, e := x2j.XmlToJson(doc, c.Safe); e != nil || !bytes.Equal(j, wantJ) {
		return mism("x2j.XmlToJson", string(j), string(wantJ))
	}
	var w bytes.Buffer
	if j, e := x2j.XmlToJsonWriter(doc, &w, c.Safe); e != nil || !bytes.Equal(j, wantJ) || !bytes.Equal(w.Bytes(), wantJ) {
		return mism("x2j.XmlToJsonWriter", string(j)+" / "+w.String(), string(wantJ))
	}
	if xr, j, e := x2j.XmlReaderToJson(bytes.NewReader(doc), c.Safe); e != nil || !bytes.Equal(j, wantJ) || !bytes.Equal(xr, doc) {
		return mism("x2j.XmlReaderToJson", string(xr)+" / "+string(j), string(doc)+" / "+string(wantJ))
	}
	w.Reset()
	if xr, j, e := x2j.XmlReaderToJsonWriter(bytes.NewReader(doc), &w, c.Safe); e != nil || !bytes.Equal(j, wantJ) || !bytes.Equal(xr, doc) || !bytes.Equal(w.Bytes(), wantJ) {
		return mism("x2j.XmlReaderToJsonWriter", string(xr)+" / "+string(j), string(doc)+" / "+string(wantJ))
	}
	cp := core.PathsForKey(c.Tag)
	if p, e := x2j.XmlPathsForTag(doc, c.Tag); e != nil || !reflect.DeepEqual(strSet(p), strSet(cp)) {
		return mism("x2j.XmlPathsForTag", strSet(p), strSet(cp))
	}
	ne(len(cp))
	if p, e := x2j.XmlPathForTagShortest(doc, c.Tag); e != nil || len(strings.Split(p, ".")) != len(strings.Split(core.PathForKeyShortest(c.Tag), ".")) || (p == "") != (len(cp) == 0) {
		return mism("x2j.XmlPathForTagShortest", p, core.PathForKeyShortest(c.Tag))
	}
	cv, _ := core.ValuesForKey(c.Tag)
	if v, e := x2j.XmlValuesForTag(doc, c.Tag); e != nil || !compareVals(v, cv, true) {
		return mism("x2j.XmlValuesForTag", sortedCanon(v), sortedCanon(cv))
	}
	cpv, cpe := core.ValuesForPath(dpath)
	if v, e := x2j.XmlValuesForPath(doc, dpath); !eqErr(e, cpe) || !compareVals(v, cpv, true) {
		return mism("x2j.XmlValuesForPath", sortedCanon(v), sortedCanon(cpv))
	}
	ne(len(cpv))
	if l, e := x2j.XmlLeafNodes(doc); e != nil || !reflect.DeepEqual(leafKey(l), leafKey(core.LeafNodes())) {
		return mism("x2j.XmlLeafNodes", leafKey(l), leafKey(core.LeafNodes()))
	}
	if l, e := x2j.XmlLeafValues(doc); e != nil || !sameMultisetStrict(l, core.LeafValues()) {
		return mism("x2j.XmlLeafValues", l, core.LeafValues())
	}
	if l, e := x2j.XmlLeafPath(doc); e != nil || !reflect.DeepEqual(strSet(l), strSet(core.LeafPaths())) {
		return mism("x2j.XmlLeafPath", strSet(l), strSet(core.LeafPaths()))
	}
	// every call decodes the document afresh: neither what the caller did to an earlier result nor a decoder option
	// that changed since an earlier call with the same bytes may show
	{
		v1, _ := x2j.XmlValuesForPath(doc, dpath)
		v2, _ := x2j.XmlValuesForTag(doc, c.Tag)
		for _, v := range append(v1, v2...) {
			scribble(v)
		}
		for _, opt := range []string{"attr-prefix", "lower"} {
			if opt == "lower" {
				mxj.CoerceKeysToLower(true)
			} else {
				mxj.SetAttrPrefix("@")
			}
			core2, err2 := mxj.NewMapXml(doc)
			if err2 != nil {
				return failf("decode-error", "%v", err2)
			}
			tag2, dpath2 := c.Tag, dpath
			if opt == "lower" {
				tag2, dpath2 = strings.ToLower(c.Tag), strings.ToLower(dpath)
			}
			cpv2, cpe2 := core2.ValuesForPath(dpath2)
			if v, e := x2j.XmlValuesForPath(doc, dpath2); !eqErr(e, cpe2) || !compareVals(v, cpv2, true) {
				return mism("x2j.XmlValuesForPath (second call, after the caller changed the first result and option "+opt+" was switched)", sortedCanon(v), sortedCanon(cpv2))
			}
			cv2, _ := core2.ValuesForKey(tag2)
			if v, e := x2j.XmlValuesForTag(doc, tag2); e != nil || !compareVals(v, cv2, true) {
				return mism("x2j.XmlValuesForTag (second call, option "+opt+")", sortedCanon(v), sortedCanon(cv2))
			}
			cp2 := core2.PathsForKey(tag2)
			if p, e := x2j.XmlPathsForTag(doc, tag2); e != nil || !reflect.DeepEqual(strSet(p), strSet(cp2)) {
				return mism("x2j.XmlPathsForTag (second call, option "+opt+")", strSet(p), strSet(cp2))
			}
			if l, e := x2j.XmlLeafNodes(doc); e != nil || !reflect.DeepEqual(leafKey(l), leafKey(core2.LeafNodes())) {
				return mism("x2j.XmlLeafNodes (second call, option "+opt+")", leafKey(l), leafKey(core2.LeafNodes()))
			}
			if l, e := x2j.XmlLeafPath(doc); e != nil || !reflect.DeepEqual(strSet(l), strSet(core2.LeafPaths())) {
				return mism("x2j.XmlLeafPath (second call, option "+opt+")", strSet(l), strSet(core2.LeafPaths()))
			}
			if m, e := x2j.XmlToMap(doc); e != nil || !reflect.DeepEqual(m, map[string]interface{}(core2)) {
				return mism("x2j.XmlToMap (second call, option "+opt+")", m, core2)
			}
			wantJ2, _ := core2.Json(c.Safe)
			if j, e := x2j.XmlToJson(doc, c.Safe); e != nil || !bytes.Equal(j, wantJ2) {
				return mism("x2j.XmlToJson (second call, option "+opt+")", string(j), string(wantJ2))
			}
			if m, e := x2jw.ByteDocToMap(doc); e != nil || !valEqual(m, map[string]interface{}(core2)) {
				return mism("x2j-wrapper.ByteDocToMap (second call, option "+opt+")", m, core2)
			}
			mxj.CoerceKeysToLower(false)
			mxj.SetAttrPrefix("-")
		}
	}
	if !strings.Contains(dpath, "*") {
		// a one-segment new key: the new Map may then be a single key holding a list (no root element of its own)
		pair1 := dpath + ":n1"
		nm1, nerr1 := core.NewMap(pair1)
		var w1x, w1j []byte
		var w1xerr error
		if nerr1 == nil {
			w1x, w1xerr = nm1.Xml()
			w1j, _ = nm1.Json()
		}
		if x, e := x2j.XmlNewXml(doc, pair1); (nerr1 == nil && !eqErr(e, w1xerr)) || (nerr1 != nil && e == nil) || (e == nil && !bytes.Equal(x, w1x)) {
			return mism("x2j.XmlNewXml (one-segment new key "+pair1+")", string(x), string(w1x))
		}
		if j, e := x2j.XmlNewJson(doc, pair1); !eqErr(e, nerr1) || !(bytes.Equal(j, w1j) || (nerr1 == nil && eitherJ(j, nm1))) {
			return mism("x2j.XmlNewJson (one-segment new key "+pair1+")", string(j), string(w1j))
		}
	}
	// new keys that are element names, and new keys whose last member is an attribute key or the text key
	for _, newKey := range []string{"n1.n2", "rec.-id", "rec.#text"} {
		if strings.Contains(dpath, "*") {
			break
		}
		pair := dpath + ":" + newKey
		nm, nerr := core.NewMap(pair)
		var wantNX, wantNJ []byte
		var wantNXerr error
		if nerr == nil {
			wantNX, wantNXerr = nm.Xml() // an attribute key holding a map cannot be encoded: the composition's error
			wantNJ, _ = nm.Json()
		}
		if x, e := x2j.XmlNewXml(doc, pair); (nerr == nil && !eqErr(e, wantNXerr)) || (nerr != nil && e == nil) || (e == nil && !bytes.Equal(x, wantNX)) {
			return mism("x2j.XmlNewXml", string(x), string(wantNX))
		}
		if j, e := x2j.XmlNewJson(doc, pair); !eqErr(e, nerr) || !(bytes.Equal(j, wantNJ) || (nerr == nil && eitherJ(j, nm))) {
			return mism("x2j.XmlNewJson", string(j), string(wantNJ))
		}
	}
	{
		cu := mxj.Map(copyMap(core))
		_, uerr := cu.UpdateValuesForPath(map[string]interface{}{c.Tag: "NEWVAL"}, dpath)
		wantU, _ := cu.Xml()
		if x, e := x2j.XmlUpdateValsForPath(doc, map[string]interface{}{c.Tag: "NEWVAL"}, dpath); !eqErr(e, uerr) || (e == nil && !bytes.Equal(x, wantU)) {
			return mism("x2j.XmlUpdateValsForPath", string(x), string(wantU))
		}
	}

	// ---------------- x2j-wrapper: conversion and reader forms
	for _, recast := range []bool{false, true} {
		cm := core
		if recast {
			cm = coreCast
		}
		if m, e := x2jw.DocToMap(string(doc), recast); e != nil || !valEqual(m, map[string]interface{}(cm)) {
			return mism("x2j-wrapper.DocToMap", m, cm)
		}
		if m, e := x2jw.ByteDocToMap(doc, recast); e != nil || !valEqual(m, map[string]interface{}(cm)) {
			return mism("x2j-wrapper.ByteDocToMap", m, cm)
		}
		wj, werr := cm.Json()
		if s, e := x2jw.DocToJson(string(doc), recast); !eqErr(e, werr) || (e == nil && !eitherJ([]byte(s), cm)) {
			return mism("x2j-wrapper.DocToJson", s, string(wj))
		}
		if s, e := x2jw.ByteDocToJson(doc, recast); !eqErr(e, werr) || (e == nil && !eitherJ([]byte(s), cm)) {
			return mism("x2j-wrapper.ByteDocToJson", s, string(wj))
		}
		if m, e := x2jw.ToMap(bytes.NewReader(doc), recast); e != nil || !valEqual(m, map[string]interface{}(cm)) {
			return mism("x2j-wrapper.ToMap", m, cm)
		}
		if m, e := x2jw.XmlBufferToMap(bytes.NewBuffer(append([]byte(nil), doc...)), recast); e != nil || !valEqual(m, map[string]interface{}(cm)) {
			return mism("x2j-wrapper.XmlBufferToMap", m, cm)
		}
		// the reader forms take no safe-encoding flag: the tree marshals with the standard (HTML-safe) encoder, the
		// sibling DocToJson with Map.Json(); both are "decode-then-encode with the same flags", either text is accepted
		sj, serr := cm.Json(true)
		if s, e := x2jw.ToJson(bytes.NewReader(doc), recast); !eqErr(e, serr) || (e == nil && s != string(sj) && s != string(wj)) {
			return mism("x2j-wrapper.ToJson", s, string(sj))
		}
	}
	// ---------------- x2j-wrapper: its own walkers on the decoded document and on the JSON-shaped value
	for _, subject := range []struct {
		name string
		m    map[string]interface{}
		key  string
		path []string
	}{{"doc", core, c.Tag, c.DPath}, {"value", c.Value, c.Key, stepNames(c.Steps)}} {
		mv := mxj.Map(copyMap(subject.m))
		cpaths := mv.PathsForKey(subject.key)
		wpaths := x2jw.PathsForKey(copyMap(subject.m), subject.key)
		if !reflect.DeepEqual(strSet(wpaths), strSet(cpaths)) {
			return mism("x2j-wrapper.PathsForKey("+subject.name+")", strSet(wpaths), strSet(cpaths))
		}
		ws, cs := x2jw.PathForKeyShortest(copyMap(subject.m), subject.key), mv.PathForKeyShortest(subject.key)
		if (ws == "") != (cs == "") || len(strings.Split(ws, ".")) != len(strings.Split(cs, ".")) {
			return mism("x2j-wrapper.PathForKeyShortest("+subject.name+")", ws, cs)
		}
		if ws != "" {
			found := false
			for _, p := range cpaths {
				found = found || p == ws
			}
			if !found {
				return mism("x2j-wrapper.PathForKeyShortest("+subject.name+")", ws, cpaths)
			}
		}
		p := strings.Join(subject.path, ".")
		cvals, _ := mv.ValuesForPath(p)
		wv := x2jw.ValuesFromKeyPath(copyMap(subject.m), p, true)
		if !compareVals(wv, cvals, true) {
			return mism("x2j-wrapper.ValuesFromKeyPath("+subject.name+",getAttrs=true)", sortedCanon(wv), sortedCanon(cvals))
		}
		wantNA := refEvalNoAttrs(copyMap(subject.m), subject.path)
		wna := x2jw.ValuesFromKeyPath(copyMap(subject.m), p, false)
		if !compareVals(wna, wantNA, true) {
			return mism("x2j-wrapper.ValuesFromKeyPath("+subject.name+",getAttrs=false)", sortedCanon(wna), sortedCanon(wantNA))
		}
		// ValuesAtKeyPath: the values of the parent path if any of them is a map holding the last key (or the last step is '*')
		var wantAt []interface{}
		parent := []interface{}{interface{}(copyMap(subject.m))}
		if len(subject.path) > 1 {
			parent = refEvalNoAttrs(copyMap(subject.m), subject.path[:len(subject.path)-1])
		}
		last := subject.path[len(subject.path)-1]
		if len(parent) > 0 {
			if last == "*" {
				wantAt = parent
			} else {
				for _, v := range parent {
					if mm, ok := v.(map[string]interface{}); ok {
						if _, ok := mm[last]; ok {
							wantAt = parent
						}
					}
				}
			}
		}
		wat := x2jw.ValuesAtKeyPath(copyMap(subject.m), p, false)
		if !compareVals(wat, wantAt, true) {
			return mism("x2j-wrapper.ValuesAtKeyPath("+subject.name+")", sortedCanon(wat), sortedCanon(wantAt))
		}
		ckv, _ := mv.ValuesForKey(subject.key)
		wkv := expandLists(x2jw.ValuesForKey(copyMap(subject.m), subject.key))
		if !compareVals(wkv, ckv, true) {
			return mism("x2j-wrapper.ValuesForKey("+subject.name+") with lists expanded", sortedCanon(wkv), sortedCanon(ckv))
		}
		ne(len(cvals))
		ne(len(cpaths))
	}
	if v, e := x2jw.ValuesFromTagPath(string(doc), dpath, true); e != nil || !compareVals(v, cpv, true) {
		return mism("x2j-wrapper.ValuesFromTagPath", sortedCanon(v), sortedCanon(cpv))
	}
	if v, e := x2jw.ReaderValuesFromTagPath(bytes.NewReader(doc), dpath, true); e != nil || !compareVals(v, cpv, true) {
		return mism("x2j-wrapper.ReaderValuesFromTagPath", sortedCanon(v), sortedCanon(cpv))
	}
	if p, e := x2jw.PathsForTag(string(doc), c.Tag); e != nil || !reflect.DeepEqual(strSet(p), strSet(cp)) {
		return mism("x2j-wrapper.PathsForTag", strSet(p), strSet(cp))
	}
	if p, e := x2jw.BytePathsForTag(doc, c.Tag); e != nil || !reflect.DeepEqual(strSet(p), strSet(cp)) {
		return mism("x2j-wrapper.BytePathsForTag", strSet(p), strSet(cp))
	}
	if v, e := x2jw.ValuesForTag(string(doc), c.Tag); e != nil || !compareVals(expandLists(v), cv, true) {
		return mism("x2j-wrapper.ValuesForTag", sortedCanon(expandLists(v)), sortedCanon(cv))
	}
	// the remaining document-level forms: each is the decoder followed by a function checked above
	if v, e := x2jw.ReaderValuesForTag(bytes.NewReader(doc), c.Tag); e != nil || !compareVals(expandLists(v), cv, true) {
		return mism("x2j-wrapper.ReaderValuesForTag", sortedCanon(expandLists(v)), sortedCanon(cv))
	}
	wantShort := core.PathForKeyShortest(c.Tag)
	for name, f := range map[string]func() (string, error){
		"PathForTagShortest":     func() (string, error) { return x2jw.PathForTagShortest(string(doc), c.Tag) },
		"BytePathForTagShortest": func() (string, error) { return x2jw.BytePathForTagShortest(doc, c.Tag) },
	} {
		p, e := f()
		ok := e == nil && (p == "") == (wantShort == "") && len(strings.Split(p, ".")) == len(strings.Split(wantShort, "."))
		if ok && p != "" {
			ok = false
			for _, q := range cp {
				ok = ok || q == p
			}
		}
		if !ok {
			return mism("x2j-wrapper."+name, p, wantShort)
		}
	}
	for _, attrs := range []bool{false, true} {
		wantAt := x2jw.ValuesAtKeyPath(copyMap(core), dpath, attrs)
		if v, e := x2jw.ValuesAtTagPath(string(doc), dpath, attrs); e != nil || !compareVals(v, wantAt, true) {
			return mism(fmt.Sprintf("x2j-wrapper.ValuesAtTagPath(getAttrs=%v)", attrs), sortedCanon(v), sortedCanon(wantAt))
		}
	}
	for _, recast := range []bool{false, true} {
		cm := core
		if recast {
			cm = coreCast
		}
		wji, wjerr := cm.JsonIndent("", "  ")
		if s, e := x2jw.DocToJsonIndent(string(doc), recast); !eqErr(e, wjerr) || (e == nil && !eitherJI([]byte(s), cm)) {
			return mism("x2j-wrapper.DocToJsonIndent", s, string(wji))
		}
		smi, smerr := json.MarshalIndent(map[string]interface{}(cm), "", "  ")
		if s, e := x2jw.ToJsonIndent(bytes.NewReader(doc), recast); !eqErr(e, smerr) || (e == nil && s != string(smi) && s != string(wji)) {
			return mism("x2j-wrapper.ToJsonIndent", s, string(smi))
		}
		wj, wjerr2 := cm.Json()
		if s, e := x2jw.XmlBufferToJson(bytes.NewBuffer(append([]byte(nil), doc...)), recast); !eqErr(e, wjerr2) || (e == nil && !eitherJ([]byte(s), cm)) {
			return mism("x2j-wrapper.XmlBufferToJson", s, string(wj))
		}
	}

	// ---------------- j2x on the JSON text of the value
	vm := mxj.Map(copyMap(c.Value))
	jb, jerr := vm.Json()
	if jerr != nil {
		return failf("error", "Json: %v", jerr)
	}
	if len(jb)%2 == 0 {
		// a text of the same meaning that spells one top-level key twice (the decoder keeps the last occurrence)
		jb = dupTopKey(jb, c.Value, c.Key)
		info.Class("JSON text with a duplicated top-level key")
	}
	if len(jb)%3 == 0 {
		// the same value in another producer's spelling: \/ and \u escapes in strings, N.0 for integers, blanks
		jb = respellJSON(jb, 1+len(jb)%15)
		info.Class("JSON text respelled")
	}
	jb = reuseBuffer(jb, false, func(b []byte) {
		j2x.JsonToMap(b)
		j2x.JsonToXml(b)
		j2x.JsonValuesForKeyPath(b, vpath)
		j2x.JsonValuesForKey(b, c.Key)
		j2x.JsonPathsForKey(b, c.Key)
		j2x.JsonLeafNodes(b)
	})
	if m, e := j2x.JsonToMap(jb); e != nil || !reflect.DeepEqual(m, c.Value) {
		return mism("j2x.JsonToMap", m, c.Value)
	}
	wj, _ := vm.Json(c.Safe)
	if j, e := j2x.MapToJson(copyMap(c.Value), c.Safe); e != nil || !bytes.Equal(j, wj) {
		return mism("j2x.MapToJson", string(j), string(wj))
	}
	// JSON texts that are no object: a top-level list (NewMapJson documents what it does with it), an empty or blank
	// text, a text with a byte-order mark - the conversion wrappers are decode-then-encode for these as well
	if plain, perr := vm.Json(); perr == nil {
		listDoc := append(append(append([]byte("["), plain...), ','), append(append([]byte(nil), plain...), ']')...)
		for _, d := range [][]byte{listDoc, []byte(""), []byte(" \n"), []byte("[]"), []byte(`[1,"b",{"k":true}]`), append([]byte("\xef\xbb\xbf"), plain...), append([]byte("  "), plain...)} {
			cm, cerr := mxj.NewMapJson(d)
			var lx []byte
			compErr := cerr
			if cerr == nil {
				lx, compErr = cm.Xml()
			}
			if m, e := j2x.JsonToMap(d); !eqErr(e, cerr) || (e == nil && !reflect.DeepEqual(m, map[string]interface{}(cm))) {
				return mism(fmt.Sprintf("j2x.JsonToMap(%q)", d), fmt.Sprint(m, e), fmt.Sprint(cm, cerr))
			}
			if x, e := j2x.JsonToXml(d); !eqErr(e, compErr) || (e == nil && !bytes.Equal(x, lx)) {
				return mism(fmt.Sprintf("j2x.JsonToXml(%q)", d), fmt.Sprint(string(x), e), fmt.Sprint(string(lx), compErr))
			}
			var lw bytes.Buffer
			if e := j2x.JsonToXmlWriter(d, &lw); !eqErr(e, compErr) || (e == nil && !bytes.Equal(lw.Bytes(), lx)) {
				return mism(fmt.Sprintf("j2x.JsonToXmlWriter(%q)", d), fmt.Sprint(lw.String(), e), fmt.Sprint(string(lx), compErr))
			}
		}
	}
	wx, wxerr := vm.Xml()
	if x, e := j2x.JsonToXml(jb); !eqErr(e, wxerr) || (e == nil && !bytes.Equal(x, wx)) {
		return mism("j2x.JsonToXml", string(x), string(wx))
	}
	w.Reset()
	if e := j2x.JsonToXmlWriter(jb, &w); !eqErr(e, wxerr) || (e == nil && !bytes.Equal(w.Bytes(), wx)) {
		return mism("j2x.JsonToXmlWriter", w.String(), string(wx))
	}
	if jr, x, e := j2x.JsonReaderToXml(bytes.NewReader(jb)); !eqErr(e, wxerr) || (e == nil && !bytes.Equal(x, wx)) || !bytes.Equal(stripWS(jr), stripWS(jb)) {
		return mism("j2x.JsonReaderToXml", string(jr)+" / "+string(x), string(jb)+" / "+string(wx))
	}
	w.Reset()
	if e := j2x.JsonReaderToXmlWriter(bytes.NewReader(jb), &w); !eqErr(e, wxerr) || (e == nil && !bytes.Equal(w.Bytes(), wx)) {
		return mism("j2x.JsonReaderToXmlWriter", w.String(), string(wx))
	}
	vp := vm.PathsForKey(c.Key)
	if p, e := j2x.JsonPathsForKey(jb, c.Key); e != nil || !reflect.DeepEqual(strSet(p), strSet(vp)) {
		return mism("j2x.JsonPathsForKey", strSet(p), strSet(vp))
	}
	if p, e := j2x.JsonPathForKeyShortest(jb, c.Key); e != nil || (p == "") != (len(vp) == 0) || len(strings.Split(p, ".")) != len(strings.Split(vm.PathForKeyShortest(c.Key), ".")) {
		return mism("j2x.JsonPathForKeyShortest", p, vm.PathForKeyShortest(c.Key))
	}
	// every key that occurs in the value (and one that does not), for three spellings of the same document: as encoded,
	// with "/" and all non-ASCII characters written as escapes, and wrapped in a top-level list (key "object")
	{
		keys := map[string]bool{"zz-absent": true, "object": true}
		collectKeys(c.Value, keys)
		escDoc := escapeJSONText(jb)
		listDoc := append(append([]byte("[1,"), jb...), ']')
		lm, lerr := mxj.NewMapJson(listDoc)
		for _, k := range setKeys(keys) {
			if k == "" {
				continue // a path cannot end in the empty key: searching for it is outside the path language
			}
			want := strSet(vm.PathsForKey(k))
			for name, d := range map[string][]byte{"as encoded": jb, "escaped spelling": escDoc} {
				if p, e := j2x.JsonPathsForKey(d, k); e != nil || !reflect.DeepEqual(strSet(p), want) {
					return mism("j2x.JsonPathsForKey(key "+strconv.Quote(k)+", "+name+" "+string(d)+")", strSet(p), want)
				}
				if p, e := j2x.JsonPathForKeyShortest(d, k); e != nil || (p == "") != (len(want) == 0) {
					return mism("j2x.JsonPathForKeyShortest(key "+strconv.Quote(k)+", "+name+")", p, vm.PathForKeyShortest(k))
				}
				wv, _ := vm.ValuesForKey(k)
				if v, e := j2x.JsonValuesForKey(d, k); e != nil || !compareVals(v, wv, true) {
					return mism("j2x.JsonValuesForKey(key "+strconv.Quote(k)+", "+name+")", sortedCanon(v), sortedCanon(wv))
				}
			}
			if lerr == nil {
				lw := strSet(lm.PathsForKey(k))
				if p, e := j2x.JsonPathsForKey(listDoc, k); e != nil || !reflect.DeepEqual(strSet(p), lw) {
					return mism("j2x.JsonPathsForKey(key "+strconv.Quote(k)+", document wrapped in a top-level list)", strSet(p), lw)
				}
				if p, e := j2x.JsonPathForKeyShortest(listDoc, k); e != nil || (p == "") != (len(lw) == 0) {
					return mism("j2x.JsonPathForKeyShortest(key "+strconv.Quote(k)+", document wrapped in a top-level list)", p, lm.PathForKeyShortest(k))
				}
			}
		}
	}
	vk, vkerr := vm.ValuesForKey(c.Key, sp...)
	if v, e := j2x.JsonValuesForKey(jb, c.Key, sp...); !eqErr(e, vkerr) || !compareVals(v, vk, true) {
		return mism("j2x.JsonValuesForKey", sortedCanon(v), sortedCanon(vk))
	}
	vv, vverr := vm.ValuesForPath(vpath, sp...)
	if v, e := j2x.JsonValuesForKeyPath(jb, vpath, sp...); !eqErr(e, vverr) || !compareVals(v, vv, true) {
		return mism("j2x.JsonValuesForKeyPath", sortedCanon(v), sortedCanon(vv))
	}
	ne(len(vv))
	if l, e := j2x.JsonLeafNodes(jb); e != nil || !reflect.DeepEqual(leafKey(l), leafKey(vm.LeafNodes())) {
		return mism("j2x.JsonLeafNodes", leafKey(l), leafKey(vm.LeafNodes()))
	}
	if l, e := j2x.JsonLeafValues(jb); e != nil || !sameMultisetStrict(l, vm.LeafValues()) {
		return mism("j2x.JsonLeafValues", l, vm.LeafValues())
	}
	if l, e := j2x.JsonLeafPath(jb); e != nil || !reflect.DeepEqual(strSet(l), strSet(vm.LeafPaths())) {
		return mism("j2x.JsonLeafPath", strSet(l), strSet(vm.LeafPaths()))
	}
	if !hasWildcard(c.Steps) {
		vpair := vpath + ":n1.n2"
		nm, nerr := vm.NewMap(vpair)
		var wnj, wnx []byte
		var wnxerr error
		if nerr == nil {
			wnj, _ = nm.Json()
			wnx, wnxerr = nm.Xml()
		}
		if j, e := j2x.JsonNewJson(jb, vpair); !eqErr(e, nerr) || !(bytes.Equal(j, wnj) || (nerr == nil && eitherJ(j, nm))) {
			return mism("j2x.JsonNewJson", string(j), string(wnj))
		}
		if x, e := j2x.JsonNewXml(jb, vpair); (nerr == nil && !eqErr(e, wnxerr)) || (e == nil && !bytes.Equal(x, wnx)) {
			return mism("j2x.JsonNewXml", string(x), string(wnx))
		}
	}
	// the new-map wrappers with NO key pairs: the projection of nothing is the empty Map, not the document
	{
		em, emerr := vm.NewMap()
		var ej, ex []byte
		var exerr error
		if emerr == nil {
			ej, _ = em.Json()
			ex, exerr = em.Xml()
		}
		if j, e := j2x.JsonNewJson(jb); !eqErr(e, emerr) || !bytes.Equal(j, ej) {
			return mism("j2x.JsonNewJson (no key pairs)", string(j), string(ej))
		}
		if x, e := j2x.JsonNewXml(jb); (emerr == nil && !eqErr(e, exerr)) || (e == nil && !bytes.Equal(x, ex)) {
			return mism("j2x.JsonNewXml (no key pairs)", string(x), string(ex))
		}
		cem, cemerr := core.NewMap()
		var cej, cex []byte
		var cexerr error
		if cemerr == nil {
			cej, _ = cem.Json()
			cex, cexerr = cem.Xml()
		}
		if j, e := x2j.XmlNewJson(doc); !eqErr(e, cemerr) || !(bytes.Equal(j, cej) || (cemerr == nil && eitherJ(j, cem))) {
			return mism("x2j.XmlNewJson (no key pairs)", string(j), string(cej))
		}
		if x, e := x2j.XmlNewXml(doc); (cemerr == nil && !eqErr(e, cexerr)) || (e == nil && !bytes.Equal(x, cex)) {
			return mism("x2j.XmlNewXml (no key pairs)", string(x), string(cex))
		}
	}
	{
		cu := mxj.Map(copyMap(c.Value))
		_, uerr := cu.UpdateValuesForPath(map[string]interface{}{c.Key: "NEWVAL"}, vpath, sp...)
		wantU, _ := cu.Json()
		if j, e := j2x.JsonUpdateValsForPath(jb, map[string]interface{}{c.Key: "NEWVAL"}, vpath, sp...); !eqErr(e, uerr) || (e == nil && !eitherJ(j, cu)) {
			return mism("j2x.JsonUpdateValsForPath", string(j), string(wantU))
		}
	}
	if !reflect.DeepEqual(map[string]interface{}(vm), c.Value) {
		return failf("receiver-modified", "a wrapper changed its argument: %s -> %s", canon(c.Value), canon(vm))
	}
	depths := map[int]bool{}
	listed := false
	keyDepths(c.Value, c.Key, 0, false, depths, &listed)
	info.ClassIf(len(depths) >= 2, "key at >=2 depths in the value")
	info.ClassIf(hasListInList(c.Value), "list-in-list value")
	info.ClassIf(nonEmpty >= 3, ">=3 compared functions returned non-empty results")
	if f := checkC20bulk(c, doc, mism, info); f != nil {
		return f
	}
	info.NonTrivial(nonEmpty >= 2)
	return nil
}

func TestC20(t *testing.T) { runProp(t, "C20", genC20, checkC20) }

// plainReader hides every method but Read (an *os.File, a socket or an HTTP body is no io.ByteReader either).
type plainReader struct{ r io.Reader }

func (p plainReader) Read(b []byte) (int, error) { return p.r.Read(b) }

// checkC20bulk: x2j-wrapper.XmlMsgsFromReader[AsJson] is the loop of mxj.NewMapXmlReader calls that
// mxj.HandleXmlReader runs: same messages in the same order, same stop, and the reader is left where the core leaves it.
func checkC20bulk(c CaseC20, doc []byte, mism func(string, interface{}, interface{}) *Failure, info *Info) *Failure {
	mxj.CastNanInf(false) // what the AsJson form does with a message that cannot be encoded (NaN) is not part of this clause
	if c.Bulk < 0 {
		return nil
	}
	var stream bytes.Buffer
	stream.Write(doc)
	stream.WriteString("\n<second n=\"2\">2</second> ")
	stream.Write(doc)
	stream.WriteString("<fourth><x>true</x></fourth>\n")
	data := stream.Bytes()
	rest := func(r io.Reader) []string {
		var out []string
		for i := 0; i < 6; i++ {
			m, err := mxj.NewMapXmlReader(r)
			if err != nil {
				out = append(out, "error:"+err.Error())
				break
			}
			out = append(out, canon(map[string]interface{}(m)))
		}
		return out
	}
	jsonSafe := true // spelling of the JSON messages expected from the AsJson form: no flag is passed, both spellings are compositions of core calls
	run := func(asJSON, core, hideByteReader bool) ([]string, []string, error) {
		var r io.Reader = bytes.NewReader(data)
		if hideByteReader {
			r = plainReader{r}
		}
		var seen []string
		n := 0
		var herr error
		eh := func(e error) bool { seen = append(seen, "error:"+e.Error()); return false }
		switch {
		case core:
			herr = mxj.HandleXmlReader(r, func(m mxj.Map) bool {
				n++
				if asJSON {
					j, _ := m.Json(jsonSafe)
					seen = append(seen, string(j))
				} else {
					seen = append(seen, canon(map[string]interface{}(m)))
				}
				return n != c.Bulk
			}, eh)
		case asJSON:
			herr = x2jw.XmlMsgsFromReaderAsJson(r, func(s string) bool { n++; seen = append(seen, s); return n != c.Bulk }, eh, c.Recast)
		default:
			herr = x2jw.XmlMsgsFromReader(r, func(m map[string]interface{}) bool { n++; seen = append(seen, canon(m)); return n != c.Bulk }, eh, c.Recast)
		}
		return seen, rest(r), herr
	}
	defer resetOptions()
	for _, asJSON := range []bool{false, true} {
		for _, hide := range []bool{true, false} {
			// the core handler has no cast argument: the wrapper's recast flag is compared through the same decoding of each message
			wantOf := func() ([]string, []string, error) {
				wantSeen, wantRest, wantErr := run(asJSON, true, hide)
				if c.Recast {
					// recompute what the core loop yields with the cast flag
					var r io.Reader = bytes.NewReader(data)
					if hide {
						r = plainReader{r}
					}
					wantSeen = nil
					for n := 1; ; n++ {
						m, err := mxj.NewMapXmlReader(r, true)
						if err != nil {
							break
						}
						if asJSON {
							j, _ := m.Json(jsonSafe)
							wantSeen = append(wantSeen, string(j))
						} else {
							wantSeen = append(wantSeen, canon(map[string]interface{}(m)))
						}
						if n == c.Bulk {
							break
						}
					}
					wantRest = rest(r)
				}
				return wantSeen, wantRest, wantErr
			}
			jsonSafe = true
			wantSeen, wantRest, wantErr := wantOf()
			gotSeen, gotRest, gotErr := run(asJSON, false, hide)
			if asJSON && !reflect.DeepEqual(gotSeen, wantSeen) {
				jsonSafe = false
				wantSeen, wantRest, wantErr = wantOf()
				jsonSafe = true
			}
			name := fmt.Sprintf("x2j-wrapper.XmlMsgsFromReader(asJson=%v, io.ByteReader hidden=%v, handler stops at message %d)", asJSON, hide, c.Bulk)
			if !reflect.DeepEqual(gotSeen, wantSeen) || (gotErr == nil) != (wantErr == nil) {
				return mism(name+": messages handed to the handler", fmt.Sprint(gotSeen, gotErr), fmt.Sprint(wantSeen, wantErr))
			}
			if !reflect.DeepEqual(gotRest, wantRest) {
				if c.Bulk >= 1 && c.Bulk <= 3 {
					// where the wrapper leaves a reader after an early stop is not pinned by the property (leniency 16)
					info.Unspecified("reader position after x2j-wrapper.XmlMsgsFromReader stopped early (leniency 16)")
				} else {
					return mism(name+": what the same reader yields afterwards", gotRest, wantRest)
				}
			}
		}
	}
	if c.Bulk == 2 {
		// the reader forms called repeatedly on one *os.File: each call consumes exactly the next document, like the core reader
		if fh, ferr := os.CreateTemp(os.Getenv("VERIF_SCRATCH"), "c20-*.xml"); ferr == nil {
			name := fh.Name()
			fh.Write(data)
			fh.Close()
			defer os.Remove(name)
			for _, form := range []string{"ReaderValuesForTag", "ReaderValuesFromTagPath"} {
				wf, e1 := os.Open(name)
				cf, e2 := os.Open(name)
				if e1 != nil || e2 != nil {
					break
				}
				for i := 0; i < 6; i++ {
					cm, cerr := mxj.NewMapXmlReader(cf)
					var got, want []interface{}
					var gerr error
					if form == "ReaderValuesForTag" {
						got, gerr = x2jw.ReaderValuesForTag(wf, c.Tag)
						if cerr == nil {
							want = x2jw.ValuesForKey(cm, c.Tag)
						}
					} else {
						got, gerr = x2jw.ReaderValuesFromTagPath(wf, strings.Join(c.DPath, "."), true)
						if cerr == nil {
							want = x2jw.ValuesFromKeyPath(cm, strings.Join(c.DPath, "."), true)
						}
					}
					if (gerr == nil) != (cerr == nil) || (gerr == nil && !compareVals(got, want, true)) {
						wf.Close()
						cf.Close()
						return mism(fmt.Sprintf("x2j-wrapper.%s, call %d on one *os.File holding four documents", form, i+1), fmt.Sprint(sortedCanon(got), gerr), fmt.Sprint(sortedCanon(want), cerr))
					}
					if cerr != nil {
						break
					}
				}
				wf.Close()
				cf.Close()
			}
			info.Class("reader wrappers called repeatedly on a file")
		}
	}
	info.ClassIf(c.Bulk >= 1 && c.Bulk <= 3, "stream wrapper stopped early, reader used again")
	info.Class("stream wrappers compared")
	return nil
}

func collectKeys(v interface{}, out map[string]bool) {
	switch x := v.(type) {
	case map[string]interface{}:
		for k, vv := range x {
			out[k] = true
			collectKeys(vv, out)
		}
	case []interface{}:
		for _, vv := range x {
			collectKeys(vv, out)
		}
	}
}

// escapeJSONText rewrites a JSON text so that, inside strings, "/" is written \/ and every non-ASCII character as
// \uXXXX (surrogate pairs above the BMP): another spelling of the same value.
func escapeJSONText(b []byte) []byte {
	var out []byte
	inStr, esc := false, false
	for _, r := range string(b) {
		switch {
		case !inStr:
			if r == '"' {
				inStr = true
			}
			out = append(out, string(r)...)
		case esc:
			esc = false
			out = append(out, string(r)...)
		case r == '\\':
			esc = true
			out = append(out, '\\')
		case r == '"':
			inStr = false
			out = append(out, '"')
		case r == '/':
			out = append(out, '\\', '/')
		case r > 0x7e && r != 0xFFFD:
			if r > 0xFFFF {
				r1, r2 := utf16.EncodeRune(r)
				out = append(out, fmt.Sprintf("\\u%04x\\u%04x", r1, r2)...)
			} else {
				out = append(out, fmt.Sprintf("\\u%04x", r)...)
			}
		default:
			out = append(out, string(r)...)
		}
	}
	return out
}
