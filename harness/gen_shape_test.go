package props

// Shape-first generator of JSON-shaped Maps and of paths drawn from the shape
// (DESIGN.md section 3.1).

import (
	"bytes"
	"encoding/json"
	"math"
	mxj "github.com/clbanning/mxj/v2"
	"reflect"
	"sort"
	"strings"

	"pgregory.net/rapid"
)

// shape: kind 0 scalar, 1 map, 2 list
type shape struct {
	kind   int
	fields map[string]*shape
	elem   *shape
}

var shapeKeys = []string{"a", "b", "c", "d", "k", "list", "sub", "items"}

// oddKeys: legal keys with spellings that the library treats specially somewhere (reserved words of the encoders,
// attribute/text prefixes, upper case, digits, hyphens, non-ASCII letters); used for about one field in twelve.
var oddKeys = []string{"doc", "object", "element", "-id", "#text", "K", "k1", "ключ", "a-b", "_seq", "#seq", "-", "A", "a]", "Doc", "k ", " k", "k\t", "\u00a0k", "k\u2028", "0", "1", "k%d",
	// keys that a path, sub-key or pair language with a few more features could mistake for syntax: a trailing backslash
	// (an escape?), a leading @ $ ~ = (attribute shorthand, reference, operator?), all digits (an index?)
	"k\\", "@type", "$ref", "~k", "=k", "2023", "a,b", "k?", "!x", "$", "@id", "object", "stream"}

func drawFieldKey(t *rapid.T) string {
	if rapid.IntRange(0, 11).Draw(t, "oddkey") == 0 {
		return rapid.SampledFrom(oddKeys).Draw(t, "ok")
	}
	return rapid.SampledFrom(shapeKeys).Draw(t, "fk")
}

func genShape(t *rapid.T, depth int, inList, lil bool) *shape {
	k := rapid.IntRange(0, 9).Draw(t, "shk")
	if depth <= 0 {
		k = 0
	}
	switch {
	case k <= 2:
		return &shape{kind: 0}
	case k <= 5 || (inList && !(lil && k >= 8)):
		s := &shape{kind: 1, fields: map[string]*shape{}}
		n := rapid.IntRange(1, 4).Draw(t, "nf")
		for i := 0; i < n; i++ {
			s.fields[drawFieldKey(t)] = genShape(t, depth-1, false, lil)
		}
		return s
	default:
		return &shape{kind: 2, elem: genShape(t, depth-1, true, lil)}
	}
}

func genRootShape(t *rapid.T, lil bool) *shape {
	s := &shape{kind: 1, fields: map[string]*shape{}}
	n := rapid.IntRange(2, 4).Draw(t, "nroot")
	for i := 0; i < n; i++ {
		s.fields[drawFieldKey(t)] = genShape(t, 4, false, lil)
	}
	return s
}

// incl. strings that look like a literal of another type or like an operator of a richer condition language
var scalarStrings = []string{"x", "y", "", "z z", "5%", "%d", "Infinity", "-Infinity", "NaN", "null", "4111111111111111", ">5", "~a", "2023", "1.0", "x/y"}

func instScalar(t *rapid.T) interface{} {
	switch rapid.IntRange(0, 5).Draw(t, "sc") {
	case 0:
		f := float64(rapid.IntRange(0, 5).Draw(t, "f"))
		if f == 5 {
			return math.Copysign(0, -1) // negative zero: equal to 0 for == and DeepEqual, spelled -0
		}
		return f
	case 1:
		return rapid.Bool().Draw(t, "b")
	case 2:
		return nil
	}
	return rapid.SampledFrom(scalarStrings).Draw(t, "s")
}

func instantiate(t *rapid.T, s *shape) interface{} {
	return instantiateD(t, s, 0)
}

func instantiateD(t *rapid.T, s *shape, d int) interface{} {
	// 8%: deviate from the shape (a scalar, or one of the empty containers only JSON can produce)
	if d > 0 && rapid.IntRange(0, 11).Draw(t, "dev") == 0 {
		switch rapid.IntRange(0, 7).Draw(t, "devkind") {
		case 0:
			return map[string]interface{}{}
		case 1:
			return []interface{}{}
		}
		return instScalar(t)
	}
	switch s.kind {
	case 1:
		m := map[string]interface{}{}
		keys := make([]string, 0, len(s.fields))
		for k := range s.fields {
			keys = append(keys, k)
		}
		sort.Strings(keys)
		for _, k := range keys {
			if rapid.IntRange(0, 9).Draw(t, "omit") == 0 {
				continue
			}
			m[k] = instantiateD(t, s.fields[k], d+1)
		}
		return m
	case 2:
		n := rapid.SampledFrom([]int{0, 1, 2, 2, 3, 3, 4, 5}).Draw(t, "ln")
		if s.elem.kind == 0 && rapid.IntRange(0, 15).Draw(t, "wide") == 0 {
			n = rapid.IntRange(33, 80).Draw(t, "widen")
		}
		l := make([]interface{}, n)
		for i := range l {
			l[i] = instantiateD(t, s.elem, d+1)
		}
		return l
	}
	return instScalar(t)
}

// genShapePath walks the shape: 15% "*" steps, optional [i] on non-wildcard
// steps, length 1-6, and a 10% chance (per path) of one missing key.
func genShapePath(t *rapid.T, root *shape, indexed bool) []Step {
	n := rapid.IntRange(1, 6).Draw(t, "plen")
	missAt := -1
	if rapid.IntRange(0, 9).Draw(t, "miss") == 0 {
		missAt = rapid.IntRange(0, n-1).Draw(t, "missAt")
	}
	var steps []Step
	cur := []*shape{root}
	for i := 0; i < n; i++ {
		// collect map shapes at frontier (lists are transparent)
		var maps []*shape
		for _, s := range cur {
			for s.kind == 2 {
				s = s.elem
			}
			if s.kind == 1 {
				maps = append(maps, s)
			}
		}
		if len(maps) == 0 {
			break
		}
		keyset := map[string]bool{}
		for _, m := range maps {
			for k := range m.fields {
				keyset[k] = true
			}
		}
		var cands []string
		for k := range keyset {
			cands = append(cands, k)
		}
		sort.Strings(cands)
		st := Step{Index: -1}
		switch {
		case i == missAt:
			st.Name = "zz"
		case rapid.IntRange(0, 19).Draw(t, "wild") < 3:
			st.Name = "*"
		default:
			st.Name = rapid.SampledFrom(cands).Draw(t, "ck")
		}
		var next []*shape
		for _, m := range maps {
			for _, k := range sortedShapeKeys(m) {
				if st.Name == "*" || k == st.Name {
					next = append(next, m.fields[k])
				}
			}
		}
		if indexed && st.Name != "*" {
			isList := false
			for _, f := range next {
				if f.kind == 2 {
					isList = true
				}
			}
			p := 1
			if isList {
				p = 8
			}
			if rapid.IntRange(0, 9).Draw(t, "isidx") < p {
				st.Index = rapid.SampledFrom([]int{0, 0, 1, 1, 2, 4}).Draw(t, "idx")
				if !isList && rapid.Bool().Draw(t, "zero") {
					st.Index = 0
				}
			}
		}
		steps = append(steps, st)
		cur = next
	}
	if len(steps) == 0 {
		steps = []Step{{Name: "zz", Index: -1}}
	}
	return steps
}

func sortedShapeKeys(s *shape) []string {
	ks := make([]string, 0, len(s.fields))
	for k := range s.fields {
		ks = append(ks, k)
	}
	sort.Strings(ks)
	return ks
}

// ---- class boosters: small templates that force one rare shape ----

// boostTwoIndexed: two list levels separated by plain keys, in-range indexes.
func boostTwoIndexed(t *rapid.T) (map[string]interface{}, []Step) {
	k1 := rapid.SampledFrom(shapeKeys).Draw(t, "k1")
	k2 := rapid.SampledFrom(shapeKeys).Draw(t, "k2")
	k3 := rapid.SampledFrom(shapeKeys).Draw(t, "k3")
	k4 := rapid.SampledFrom(shapeKeys).Draw(t, "k4")
	n1 := rapid.IntRange(1, 4).Draw(t, "n1")
	outer := make([]interface{}, n1)
	for i := range outer {
		n2 := rapid.IntRange(0, 4).Draw(t, "n2")
		inner := make([]interface{}, n2)
		for j := range inner {
			if rapid.Bool().Draw(t, "innermap") {
				inner[j] = map[string]interface{}{k4: instScalar(t), "z": instScalar(t)}
			} else {
				inner[j] = instScalar(t)
			}
		}
		mid := map[string]interface{}{k3: inner}
		if rapid.Bool().Draw(t, "extra") {
			mid["e"] = instScalar(t)
		}
		mem := map[string]interface{}{k2: mid}
		if rapid.IntRange(0, 4).Draw(t, "single") == 0 && n2 > 0 {
			mem = map[string]interface{}{k2: map[string]interface{}{k3: inner[0]}}
		}
		outer[i] = mem
	}
	var top interface{} = outer
	if n1 == 1 && rapid.Bool().Draw(t, "unlist") {
		top = outer[0]
	}
	root := map[string]interface{}{k1: top, "o": instScalar(t)}
	var steps []Step
	i1 := rapid.IntRange(0, n1).Draw(t, "i1") // n1 itself is out of range
	i2 := rapid.IntRange(0, 3).Draw(t, "i2")
	switch rapid.IntRange(0, 3).Draw(t, "form") {
	case 0:
		steps = []Step{{k1, i1}, {k2, -1}, {k3, i2}}
	case 1:
		steps = []Step{{k1, -1}, {k2, -1}, {k3, i2}}
	case 2:
		steps = []Step{{k1, i1}, {k2, 0}, {k3, i2}}
	default:
		steps = []Step{{k1, i1}, {"*", -1}, {k3, i2}}
	}
	if rapid.Bool().Draw(t, "tail") {
		steps = append(steps, Step{k4, -1})
	}
	return root, steps
}

// boostWide: a result wider than the internal initial capacity (32).
func boostWide(t *rapid.T) (map[string]interface{}, []Step) {
	k1 := rapid.SampledFrom(shapeKeys).Draw(t, "k1")
	k2 := rapid.SampledFrom(shapeKeys).Draw(t, "k2")
	n := rapid.IntRange(30, 80).Draw(t, "n")
	if rapid.Bool().Draw(t, "exactsize") {
		// exactly the default result capacity (32), its neighbours, and the sizes SetArraySize is called with elsewhere
		n = rapid.SampledFrom([]int{31, 32, 32, 33, 40, 63, 64, 65, 100, 128}).Draw(t, "nexact")
	}
	l := make([]interface{}, n)
	asMaps := rapid.Bool().Draw(t, "asmaps")
	for i := range l {
		if asMaps {
			l[i] = map[string]interface{}{k2: float64(i)}
		} else {
			l[i] = float64(i)
		}
	}
	root := map[string]interface{}{k1: l, "o": "x"}
	steps := []Step{{k1, -1}}
	if asMaps {
		switch rapid.IntRange(0, 2).Draw(t, "f") {
		case 0:
			steps = append(steps, Step{k2, -1})
		case 1:
			steps = append(steps, Step{"*", -1})
		}
	} else if rapid.Bool().Draw(t, "star") {
		steps = []Step{{"*", -1}}
	}
	if rapid.IntRange(0, 3).Draw(t, "rows") == 0 {
		// several parents whose final lists together exceed the initial capacity
		nr := rapid.IntRange(2, 6).Draw(t, "nrows")
		if rapid.IntRange(0, 2).Draw(t, "manyrows") == 0 {
			nr = rapid.IntRange(7, 30).Draw(t, "nrows2") // many short lists: the result grows past several capacity steps
		}
		rows := make([]interface{}, nr)
		x := 0
		for i := range rows {
			ni := rapid.IntRange(3, 20).Draw(t, "nitems")
			if rapid.IntRange(0, 9).Draw(t, "longrow") == 0 {
				ni = rapid.SampledFrom([]int{1, 2, 33, 40, 64, 100}).Draw(t, "nitems2")
			}
			items := make([]interface{}, ni)
			for j := range items {
				items[j] = float64(x)
				x++
			}
			var row interface{} = map[string]interface{}{k2: items}
			if rapid.IntRange(0, 5).Draw(t, "rowkind") == 0 {
				row = map[string]interface{}{k2: float64(x)}
				x++
			}
			rows[i] = row
		}
		root = map[string]interface{}{k1: rows, "o": "x"}
		steps = []Step{{k1, -1}, {k2, -1}}
		if rapid.IntRange(0, 3).Draw(t, "wrap") == 0 {
			root = map[string]interface{}{"doc": root}
			steps = append([]Step{{"doc", -1}}, steps...)
		}
		return root, steps
	}
	if rapid.IntRange(0, 3).Draw(t, "widemap") == 0 {
		// a wide map addressed with "*"
		m := map[string]interface{}{}
		for i := 0; i < n; i++ {
			m["k"+string(rune('a'+i%26))+string(rune('a'+i/26))] = float64(i)
		}
		root = map[string]interface{}{k1: m}
		steps = []Step{{k1, -1}, {"*", -1}}
	}
	return root, steps
}

// boostLIL: a key below a list that is a direct member of a list.
func boostLIL(t *rapid.T) (map[string]interface{}, []Step, string) {
	k1 := rapid.SampledFrom(shapeKeys).Draw(t, "k1")
	k2 := rapid.SampledFrom(shapeKeys).Draw(t, "k2")
	k3 := rapid.SampledFrom(shapeKeys).Draw(t, "k3")
	leafMap := func() interface{} {
		m := map[string]interface{}{k2: instScalar(t)}
		if rapid.Bool().Draw(t, "deeper") {
			m[k2] = map[string]interface{}{k3: instScalar(t), k2: instScalar(t)}
		}
		if rapid.Bool().Draw(t, "extra") {
			m[k3] = instScalar(t)
		}
		return m
	}
	n := rapid.IntRange(1, 3).Draw(t, "nouter")
	outer := make([]interface{}, n)
	for i := range outer {
		switch rapid.IntRange(0, 3).Draw(t, "memkind") {
		case 0:
			outer[i] = leafMap()
		case 1:
			outer[i] = instScalar(t)
		default:
			ni := rapid.IntRange(0, 3).Draw(t, "ninner")
			inner := make([]interface{}, ni)
			for j := range inner {
				switch rapid.IntRange(0, 3).Draw(t, "innerkind") {
				case 0:
					inner[j] = instScalar(t)
				case 1:
					inner[j] = []interface{}{leafMap()}
				default:
					inner[j] = leafMap()
				}
			}
			outer[i] = inner
		}
	}
	root := map[string]interface{}{k1: outer, "o": instScalar(t)}
	if rapid.Bool().Draw(t, "wrap") {
		root = map[string]interface{}{"w": root}
	}
	steps := []Step{{k1, -1}, {k2, -1}}
	if _, ok := root["w"]; ok {
		steps = append([]Step{{"w", -1}}, steps...)
	}
	switch rapid.IntRange(0, 3).Draw(t, "tail") {
	case 0:
		steps = append(steps, Step{k3, -1})
	case 1:
		steps = append(steps, Step{"*", -1})
	}
	return root, steps, k2
}

// boostFilter: a list of sibling maps over a small key/value alphabet, for sub-key filters.
func boostFilter(t *rapid.T) (map[string]interface{}, []Step, string, []Cond) {
	k1 := rapid.SampledFrom(shapeKeys).Draw(t, "k1")
	fkeys := []string{"a", "b", "c"}
	vals := []interface{}{"x", "y", true, false, float64(1), float64(2), float64(4000000001), float64(4000000002), float64(1696291200), float64(1696291201), 0.1, 0.10000000001}
	n := rapid.IntRange(2, 5).Draw(t, "n")
	l := make([]interface{}, n)
	for i := range l {
		m := map[string]interface{}{}
		for _, fk := range fkeys {
			if rapid.IntRange(0, 3).Draw(t, "has") > 0 {
				m[fk] = vals[rapid.IntRange(0, len(vals)-1).Draw(t, "v")]
			}
		}
		l[i] = m
	}
	if rapid.IntRange(0, 3).Draw(t, "scalarmember") == 0 {
		l = append(l, instScalar(t))
	}
	root := map[string]interface{}{k1: l, "o": map[string]interface{}{k1: l[0]}}
	var cs []Cond
	nc := rapid.IntRange(1, 3).Draw(t, "nc")
	used := map[string]bool{}
	for i := 0; i < nc; i++ {
		c := Cond{Key: rapid.SampledFrom(append([]string{"zz"}, fkeys...)).Draw(t, "ck"), Neg: rapid.IntRange(0, 2).Draw(t, "neg") == 0}
		if used[c.Key] {
			continue
		}
		used[c.Key] = true
		if rapid.IntRange(0, 3).Draw(t, "wild") == 0 {
			c.Wild = true
		} else {
			c.Val = vals[rapid.IntRange(0, len(vals)-1).Draw(t, "cv")]
		}
		cs = append(cs, c)
	}
	return root, []Step{{k1, -1}}, k1, cs
}

// ---- shared sub-structure: one container object reachable through two paths of the same Map ----
// A decoded Map is a tree, but a Map built by hand (or by moving values around with the library's own setters)
// may hold the same map or list object twice. Pure queries must treat it by value.

type AliasSpec struct {
	Src int    `json:"src"` // index of the container (DFS order) that gets a second parent
	Dst int    `json:"dst"` // index of the map that receives it
	Key string `json:"key"`
}

func listContainers(v interface{}, out *[]interface{}) {
	switch x := v.(type) {
	case map[string]interface{}:
		*out = append(*out, x)
		for _, k := range sortedKeys(x) {
			listContainers(x[k], out)
		}
	case []interface{}:
		*out = append(*out, x)
		for _, vv := range x {
			listContainers(vv, out)
		}
	}
}

func sameContainer(a, b interface{}) bool {
	switch x := a.(type) {
	case map[string]interface{}:
		y, ok := b.(map[string]interface{})
		return ok && reflect.ValueOf(x).Pointer() == reflect.ValueOf(y).Pointer()
	case []interface{}:
		y, ok := b.([]interface{})
		return ok && len(x) > 0 && len(y) > 0 && &x[0] == &y[0]
	}
	return false
}

func subtreeHas(v, target interface{}) bool {
	if sameContainer(v, target) {
		return true
	}
	switch x := v.(type) {
	case map[string]interface{}:
		for _, vv := range x {
			if subtreeHas(vv, target) {
				return true
			}
		}
	case []interface{}:
		for _, vv := range x {
			if subtreeHas(vv, target) {
				return true
			}
		}
	}
	return false
}

// applyAlias inserts container #Src under dst[Key]: the very same object (share) or a deep copy (by value).
// It reports false when the spec does not apply (no second container, destination inside the source, ...).
func applyAlias(root map[string]interface{}, a AliasSpec, share bool) bool {
	var cs []interface{}
	listContainers(root, &cs)
	if len(cs) < 2 || a.Src < 0 || a.Dst < 0 {
		return false
	}
	src := cs[1+a.Src%(len(cs)-1)] // never the root itself
	dst, ok := cs[a.Dst%len(cs)].(map[string]interface{})
	if !ok || subtreeHas(src, dst) {
		return false
	}
	if l, isList := src.([]interface{}); isList && len(l) == 0 {
		return false
	}
	if share {
		dst[a.Key] = src
	} else {
		dst[a.Key] = deepCopy(src)
	}
	return true
}

// boostEmptyKey: the empty string is a legal JSON name, so a path segment may be empty (".a", "b..a").
// The path never ENDS in an empty segment (ValuesForPath tolerates a trailing dot, i.e. drops it).
func boostEmptyKey(t *rapid.T) (map[string]interface{}, []Step, string) {
	k := rapid.SampledFrom(shapeKeys).Draw(t, "k")
	k2 := rapid.SampledFrom(shapeKeys).Draw(t, "k2")
	inner := func() map[string]interface{} {
		return map[string]interface{}{k: instScalar(t), k2: instScalar(t)}
	}
	root := map[string]interface{}{
		"": map[string]interface{}{k: instScalar(t), "": inner(), k2: []interface{}{inner(), instScalar(t)}},
		k:  instScalar(t),
	}
	if k2 != k {
		root[k2] = map[string]interface{}{"": inner(), k: instScalar(t)}
	}
	var names []string
	switch rapid.IntRange(0, 8).Draw(t, "ekpath") {
	case 7:
		// an indexed step below the empty key
		return root, []Step{{"", -1}, {k2, 0}, {k, -1}}, k
	case 8:
		return root, []Step{{"", -1}, {k2, rapid.IntRange(0, 2).Draw(t, "ekidx")}}, k
	case 0:
		names = []string{"", k}
	case 1:
		names = []string{"", "", k}
	case 2:
		names = []string{k2, "", k}
	case 3:
		names = []string{"", k2, k}
	case 4:
		names = []string{"*", k}
	case 5:
		names = []string{"", "*", k}
	default:
		names = []string{k}
	}
	var steps []Step
	for _, n := range names {
		steps = append(steps, Step{n, -1})
	}
	return root, steps, k
}

// boostDeepLIL: the addressed map sits under N lists nested directly in each other; N also beyond any plausible
// recursion or iteration bound (a list in a list stands for its members, however deep).
func boostDeepLIL(t *rapid.T) (map[string]interface{}, []Step, string) {
	k1 := rapid.SampledFrom(shapeKeys).Draw(t, "k1")
	k := rapid.SampledFrom(shapeKeys).Draw(t, "k")
	n := rapid.SampledFrom([]int{1, 2, 3, 5, 31, 32, 33, 63, 64, 65, 99, 100, 101, 102, 103, 127, 128, 129, 150, 255, 256, 257, 400}).Draw(t, "nest")
	var v interface{} = map[string]interface{}{k: instScalar(t), "z": instScalar(t)}
	if rapid.Bool().Draw(t, "inner2") {
		v = map[string]interface{}{"b": map[string]interface{}{k: instScalar(t)}, k: instScalar(t)}
	}
	for i := 0; i < n; i++ {
		l := []interface{}{v}
		if i == n/2 && rapid.Bool().Draw(t, "sibling") {
			l = append(l, map[string]interface{}{k: instScalar(t)})
		}
		v = l
	}
	root := map[string]interface{}{k1: v, "o": instScalar(t)}
	steps := []Step{{k1, -1}, {k, -1}}
	if rapid.IntRange(0, 2).Draw(t, "viab") == 0 {
		steps = []Step{{k1, -1}, {"b", -1}, {k, -1}}
	}
	return root, steps, k
}

// staleAfterChange: a query is a function of the receiver's CURRENT value. The subject Map object is changed in place
// (changeInPlace) and queried again; the answer must be that of a freshly built equal Map.
func staleAfterChange(subject map[string]interface{}, what string, q func(mxj.Map) string) *Failure {
	changeInPlace(subject)
	fresh := copyMap(subject)
	if a, b := q(mxj.Map(subject)), q(mxj.Map(fresh)); a != b {
		return failf("stale-after-in-place-change", "%s on a Map that was changed in place since the previous call:\n got  %s\n a freshly built equal Map gives %s\n map %s", what, a, b, canon(fresh))
	}
	return nil
}

// dupTopKey returns a JSON text that decodes to the same Map as jb (the text of a JSON object) but spells one top-level
// key twice: a decoy member first, the real one later. encoding/json - and therefore NewMapJson - keeps the LAST
// occurrence, so every function of the decoded document must answer exactly as for jb; a shortcut that scans the text
// itself (first occurrence, early exit) does not.
func dupTopKey(jb []byte, m map[string]interface{}, prefer string) []byte {
	if len(m) == 0 || len(jb) < 2 || jb[0] != '{' {
		return jb
	}
	key, found := prefer, false
	if _, ok := m[prefer]; ok {
		found = true
	} else {
		for _, k := range sortedKeys(m) {
			key, found = k, true
			break
		}
	}
	if !found {
		return jb
	}
	kb, err := json.Marshal(key)
	if err != nil {
		return jb
	}
	out := append([]byte(`{`), kb...)
	out = append(out, []byte(`:{"DECOY":["decoy",{"`+"k"+`":0}]},`)...)
	return append(out, jb[1:]...)
}

// decoyOfLen returns a well-formed document of exactly n bytes (JSON object or XML element) that has nothing in common
// with the documents the generators produce; nil if n is too small.  Used by reuseBuffer.
func decoyOfLen(n int, xmlDoc bool) []byte {
	if xmlDoc {
		// <q>zzz</q>
		if n < 8 {
			return nil
		}
		return []byte("<q>" + strings.Repeat("z", n-7) + "</q>")
	}
	// {"zzz":0}
	if n < 7 {
		return nil
	}
	return []byte(`{"` + strings.Repeat("z", n-6) + `":0}`)
}

// reuseBuffer models a caller that keeps ONE buffer for the documents it hands to the byte-slice taking functions:
// call(buf) is first made with a decoy document of the same length in the buffer, then the real document is copied
// into the SAME backing array and the returned slice is what the check uses from then on.  A function that remembers
// the caller's slice (instead of a copy) compares the buffer with itself on the second call.
func reuseBuffer(doc []byte, xmlDoc bool, call func([]byte)) []byte {
	decoy := decoyOfLen(len(doc), xmlDoc)
	if decoy == nil {
		return append([]byte(nil), doc...)
	}
	buf := make([]byte, len(doc))
	copy(buf, decoy)
	call(buf)
	copy(buf, doc)
	return buf
}

// wrapDeepPrefix puts the Map below 3 to 70 single-entry maps (now and then with a scalar sibling) and returns the steps
// that lead through the wrappers (now and then `*`): with them in front, paths of 9, 17, 33 or 65 segments are as
// ordinary as paths of 3.
func wrapDeepPrefix(t *rapid.T, m map[string]interface{}) (map[string]interface{}, []Step) {
	m, pre, _ := wrapDeepPrefix2(t, m)
	return m, pre
}

// wrapDeepPrefix2 also returns the prefix spelled with the keys themselves (no `*`).
func wrapDeepPrefix2(t *rapid.T, m map[string]interface{}) (map[string]interface{}, []Step, []Step) {
	d := rapid.IntRange(3, 70).Draw(t, "wrapdepth")
	pre := make([]Step, d)
	plain := make([]Step, d)
	for i := d - 1; i >= 0; i-- {
		k := rapid.SampledFrom(shapeKeys).Draw(t, "wrapk")
		outer := map[string]interface{}{k: m}
		if rapid.IntRange(0, 4).Draw(t, "wrapsib") == 0 {
			outer["sib"] = "s"
		}
		m = outer
		plain[i] = Step{Name: k, Index: -1}
		if rapid.IntRange(0, 11).Draw(t, "wrapwild") == 0 {
			k = "*"
		}
		pre[i] = Step{Name: k, Index: -1}
	}
	return m, pre, plain
}

func wrapDeep(t *rapid.T, m map[string]interface{}, steps []Step) (map[string]interface{}, []Step) {
	m, pre := wrapDeepPrefix(t, m)
	if steps == nil {
		return m, nil
	}
	return m, append(pre, steps...)
}

// colonize renames one key k of one map inside m to "ns:"+k: a key with a namespace-like prefix is a different key, a
// path step k must not find it.
func colonize(t *rapid.T, m map[string]interface{}) {
	var maps []map[string]interface{}
	var walk func(v interface{})
	walk = func(v interface{}) {
		switch x := v.(type) {
		case map[string]interface{}:
			if len(x) > 0 {
				maps = append(maps, x)
			}
			for _, k := range sortedKeys(x) {
				walk(x[k])
			}
		case []interface{}:
			for _, e := range x {
				walk(e)
			}
		}
	}
	walk(m)
	if len(maps) == 0 {
		return
	}
	tm := maps[rapid.IntRange(0, len(maps)-1).Draw(t, "colonmap")]
	ks := sortedKeys(tm)
	k := ks[rapid.IntRange(0, len(ks)-1).Draw(t, "colonkey")]
	if k == "" || strings.Contains(k, ":") {
		return
	}
	if _, clash := tm["ns:"+k]; clash {
		return
	}
	tm["ns:"+k] = tm[k]
	delete(tm, k)
}

// respellJSON rewrites a JSON text into another text of the same meaning, the way other producers spell it:
// mode&1: `/` inside strings as `\/`; mode&2: the letter a inside strings as `\u0061`; mode&4: integer literals as
// `N.0`; mode&8: a blank after every `,` and `:` outside strings. encoding/json decodes both texts to the same value
// (with UseNumber the number spelling is what the caller gets, which is why the reference always decodes the respelled
// text itself).
func respellJSON(b []byte, mode int) []byte {
	var out []byte
	inStr, esc := false, false
	for i := 0; i < len(b); i++ {
		c := b[i]
		if inStr {
			switch {
			case esc:
				esc = false
				out = append(out, c)
			case c == '\\':
				esc = true
				out = append(out, c)
			case c == '"':
				inStr = false
				out = append(out, c)
			case c == '/' && mode&1 != 0:
				out = append(out, '\\', '/')
			case c == 'a' && mode&2 != 0:
				out = append(out, []byte("\\u0061")...)
			default:
				out = append(out, c)
			}
			continue
		}
		switch {
		case c == '"':
			inStr = true
			out = append(out, c)
		case (c == '-' || (c >= '0' && c <= '9')) && mode&4 != 0:
			j := i
			for j < len(b) && strings.IndexByte("+-0123456789.eE", b[j]) >= 0 {
				j++
			}
			tok := b[i:j]
			out = append(out, tok...)
			if bytes.IndexAny(tok, ".eE") < 0 && len(tok) > 0 && tok[len(tok)-1] != '-' {
				out = append(out, '.', '0')
			}
			i = j - 1
		case (c == ',' || c == ':') && mode&8 != 0:
			out = append(out, c, ' ')
		default:
			out = append(out, c)
		}
	}
	return out
}
