package props

// C08 - key search and sub-key filters are complete, exact and mutually consistent.

import (
	"fmt"
	"reflect"
	"sort"
	"strings"
	"testing"

	mxj "github.com/clbanning/mxj/v2"
	"pgregory.net/rapid"
)

type CaseC08 struct {
	Map       map[string]interface{} `json:"map"`
	Key       string                 `json:"key"`
	Conds     []Cond                 `json:"conds,omitempty"`
	Sep       string                 `json:"sep,omitempty"`
	UsePath   bool                   `json:"use_path,omitempty"` // filter clause on ValuesForPath(Steps) instead of ValuesForKey(Key)
	Steps     []Step                 `json:"steps,omitempty"`
	Unrelated uint32                 `json:"unrelated_opts,omitempty"`
	Alias     *AliasSpec             `json:"alias,omitempty"` // one container object gets a second parent in the subject Map
}

func init() {
	register("C08", checkC08)
}

func genC08(t *rapid.T) CaseC08 {
	switch rapid.IntRange(0, 9).Draw(t, "src") {
	case 0:
		var c CaseC08
		c.Map, c.Steps, c.Key = boostLIL(t)
		c.Sep = ":"
		var cands []interface{}
		refValuesForKey(c.Map, c.Key, &cands)
		c.Conds = genCondsFrom(t, 0, 2, cands)
		c.UsePath = len(c.Conds) > 0 && rapid.Bool().Draw(t, "usepath")
		return c
	case 2:
		// the empty string as a member name on the way to the searched key ("a..k" is a path of three segments)
		var c CaseC08
		c.Map, c.Steps, c.Key = boostEmptyKey(t)
		c.Sep = ":"
		var cands []interface{}
		refValuesForKey(c.Map, c.Key, &cands)
		c.Conds = genCondsFrom(t, 0, 2, cands)
		c.UsePath = len(c.Conds) > 0 && rapid.Bool().Draw(t, "usepath")
		return c
	case 1:
		var c CaseC08
		c.Map, c.Steps, c.Key, c.Conds = boostFilter(t)
		c.Sep = rapid.SampledFrom([]string{":", "|"}).Draw(t, "sep")
		c.UsePath = rapid.Bool().Draw(t, "usepath")
		return c
	}
	lil := rapid.IntRange(0, 4).Draw(t, "lil") == 0
	sh := genRootShape(t, lil)
	c := CaseC08{Map: instantiate(t, sh).(map[string]interface{})}
	c.Key = rapid.SampledFrom(append([]string{"*", "zz", "@id", "id", "$"}, shapeKeys...)).Draw(t, "k")
	c.Sep = rapid.SampledFrom([]string{":", ":", "|", "::", "\t", " | "}).Draw(t, "sep")
	usePath := rapid.Bool().Draw(t, "usepath")
	var cands []interface{}
	if usePath {
		c.Steps = genShapePath(t, sh, !lil && rapid.Bool().Draw(t, "indexed"))
		cands = refEval(c.Map, c.Steps)
	} else {
		refValuesForKey(c.Map, c.Key, &cands)
	}
	c.Conds = genCondsFrom(t, 0, 3, cands)
	c.UsePath = usePath && len(c.Conds) > 0
	if rapid.IntRange(0, 7).Draw(t, "wrapdeep") == 0 {
		if usePath {
			c.Map, c.Steps = wrapDeep(t, c.Map, c.Steps)
		} else {
			c.Map, _ = wrapDeep(t, c.Map, nil)
		}
	}
	c.Unrelated = genUnrelated(t)
	if rapid.IntRange(0, 5).Draw(t, "alias") == 0 {
		c.Alias = &AliasSpec{Src: rapid.IntRange(0, 30).Draw(t, "asrc"), Dst: rapid.IntRange(0, 30).Draw(t, "adst"), Key: rapid.SampledFrom(shapeKeys).Draw(t, "akey")}
	}
	return c
}

// ---- reference walkers ----

func refValuesForKey(v interface{}, k string, out *[]interface{}) {
	switch x := v.(type) {
	case map[string]interface{}:
		for _, kk := range sortedKeys(x) {
			vv := x[kk]
			if kk == k || k == "*" {
				if l, ok := vv.([]interface{}); ok {
					*out = append(*out, l...)
				} else {
					*out = append(*out, vv)
				}
			}
		}
		for _, kk := range sortedKeys(x) {
			refValuesForKey(x[kk], k, out)
		}
	case []interface{}:
		for _, vv := range x {
			refValuesForKey(vv, k, out)
		}
	}
}

func refPathsForKey(v interface{}, k string, crumbs []string, out map[string]bool) {
	switch x := v.(type) {
	case map[string]interface{}:
		if _, ok := x[k]; ok {
			out[strings.Join(append(append([]string{}, crumbs...), k), ".")] = true
		}
		for kk, vv := range x {
			refPathsForKey(vv, k, append(append([]string{}, crumbs...), kk), out)
		}
	case []interface{}:
		for _, vv := range x {
			refPathsForKey(vv, k, crumbs, out)
		}
	}
}

// lilOnPathToKey: some occurrence of key k lies below a list that is a direct member of a list.
func lilOnPathToKey(v interface{}, k string, below bool) bool {
	switch x := v.(type) {
	case map[string]interface{}:
		if _, ok := x[k]; ok && below {
			return true
		}
		for _, vv := range x {
			if lilOnPathToKey(vv, k, below) {
				return true
			}
		}
	case []interface{}:
		for _, vv := range x {
			_, isList := vv.([]interface{})
			if lilOnPathToKey(vv, k, below || isList) {
				return true
			}
		}
	}
	return false
}

// keyDepths: number of distinct depths at which k occurs, and whether it occurs inside a list.
func keyDepths(v interface{}, k string, depth int, inList bool, depths map[int]bool, listed *bool) {
	switch x := v.(type) {
	case map[string]interface{}:
		if _, ok := x[k]; ok {
			depths[depth] = true
			if inList {
				*listed = true
			}
		}
		for _, vv := range x {
			keyDepths(vv, k, depth+1, inList, depths, listed)
		}
	case []interface{}:
		for _, vv := range x {
			keyDepths(vv, k, depth, true, depths, listed)
		}
	}
}

func checkC08(c CaseC08, info *Info) *Failure {
	if c.Map == nil || c.Key == "" {
		info.Skip = "empty case"
		return nil
	}
	defer resetOptions()
	applyUnrelatedOptions(c.Unrelated)
	info.ClassIf(c.Unrelated != 0, "unrelated options switched on")
	subject := copyMap(c.Map)
	if c.Alias != nil {
		// the subject holds one container object twice; the reference sees the same Map by value
		byValue := copyMap(c.Map)
		if applyAlias(subject, *c.Alias, true) && applyAlias(byValue, *c.Alias, false) {
			c.Map = byValue
			info.Class("shared sub-structure in the subject")
		} else {
			subject = copyMap(c.Map)
		}
	}
	mv := mxj.Map(subject)
	js := canon(c.Map)

	// (1) ValuesForKey
	got, err := mv.ValuesForKey(c.Key)
	if err != nil {
		return failf("error", "ValuesForKey(%q): %v", c.Key, err)
	}
	var want []interface{}
	refValuesForKey(copyMap(c.Map), c.Key, &want)
	if !compareVals(got, want, true) {
		return failf("values-for-key-mismatch", "map %s key %q\n got  %v\n want %v", js, c.Key, sortedCanon(got), sortedCanon(want))
	}
	first, ferr := mv.ValueForKey(c.Key)
	if len(want) == 0 {
		if ferr != mxj.KeyNotExistError || first != nil {
			return failf("value-for-key-mismatch", "map %s key %q: ValueForKey=%v,%v want nil,KeyNotExistError", js, c.Key, first, ferr)
		}
	} else if ferr != nil || !memberOf(first, want) {
		return failf("value-for-key-mismatch", "map %s key %q: ValueForKey=%s,%v not among the values", js, c.Key, canon(first), ferr)
	}

	depths := map[int]bool{}
	listed := false
	if c.Key != "*" {
		keyDepths(c.Map, c.Key, 0, false, depths, &listed)
		// (2) PathsForKey / PathForKeyShortest
		paths := mv.PathsForKey(c.Key)
		wp := map[string]bool{}
		refPathsForKey(c.Map, c.Key, nil, wp)
		gp := map[string]bool{}
		for _, p := range paths {
			if gp[p] {
				return failf("duplicate-path", "map %s key %q: path %q returned twice", js, c.Key, p)
			}
			gp[p] = true
		}
		if !(len(gp) == 0 && len(wp) == 0) && !reflect.DeepEqual(gp, wp) {
			return failf("paths-for-key-mismatch", "map %s key %q\n got  %v\n want %v", js, c.Key, setKeys(gp), setKeys(wp))
		}
		sh := mv.PathForKeyShortest(c.Key)
		if len(wp) == 0 {
			if sh != "" {
				return failf("shortest-path-mismatch", "map %s key %q absent but shortest path %q", js, c.Key, sh)
			}
		} else {
			minLen := 1 << 30
			for p := range wp {
				if n := len(strings.Split(p, ".")); n < minLen {
					minLen = n
				}
			}
			if !wp[sh] || len(strings.Split(sh, ".")) != minLen {
				return failf("shortest-path-mismatch", "map %s key %q: %q is not a minimal path among %v", js, c.Key, sh, setKeys(wp))
			}
		}
		// (3) values found through the paths == ValuesForKey
		var via []interface{}
		for _, p := range setKeys(wp) {
			vs, perr := mv.ValuesForPath(p)
			if perr != nil {
				return failf("error", "ValuesForPath(%q): %v", p, perr)
			}
			via = append(via, vs...)
		}
		if !compareVals(via, got, true) {
			return failf("via-paths-mismatch", "map %s key %q: values through PathsForKey %v\n via paths %v\n ValuesForKey %v", js, c.Key, setKeys(wp), sortedCanon(via), sortedCanon(got))
		}
	}

	// (4) sub-keys are a pure filter
	passes, fails := 0, 0
	if len(c.Conds) > 0 {
		sep := c.Sep
		if sep == "" {
			sep = ":"
		}
		if len(c.Key)%2 == 0 {
			// the very same argument strings were parsed a moment ago while ANOTHER separator was in force
			other := "|"
			if sep == "|" {
				other = "#"
			}
			mxj.SetFieldSeparator(other)
			mxj.Map(copyMap(c.Map)).ValuesForKey(c.Key, specs(c.Conds, sep)...)
			mxj.Map(copyMap(c.Map)).ValuesForPath(pathString(c.Steps), specs(c.Conds, sep)...)
		}
		mxj.SetFieldSeparator(sep)
		bystanders()
		sp := specs(c.Conds, sep)
		var all, filtered []interface{}
		var what string
		if c.UsePath && len(c.Steps) > 0 && !(countIndexed(c.Steps) > 0 && hasListInList(c.Map)) {
			what = pathString(c.Steps)
			all, _ = mv.ValuesForPath(what)
			filtered, err = mv.ValuesForPath(what, sp...)
		} else {
			what = c.Key
			all = got
			filtered, err = mv.ValuesForKey(what, sp...)
		}
		if err != nil {
			return failf("error", "%q with sub-keys %q: %v", what, sp, err)
		}
		var must, may []string
		for _, cand := range all {
			switch condsHold(cand, c.Conds) {
			case 1:
				must = append(must, canon(cand))
				may = append(may, canon(cand))
				passes++
			case -1:
				may = append(may, canon(cand))
				info.Unspecified("negated sub-key on a map lacking the key (leniency 2)")
			default:
				fails++
			}
		}
		gotF := sortedCanon(filtered)
		sort.Strings(must)
		sort.Strings(may)
		for _, f := range filtered {
			if _, ok := f.(map[string]interface{}); !ok {
				return failf("filter-returned-non-map", "map %s %q sub-keys %q returned %s", js, what, sp, canon(f))
			}
		}
		if !subMultiset(must, gotF) || !subMultiset(gotF, may) {
			return failf("filter-mismatch", "map %s\n%q sub-keys %q\n got  %v\n must %v\n may  %v", js, what, sp, gotF, must, may)
		}
		// the single-value and existence forms agree with the filtered list
		if c.UsePath && len(c.Steps) > 0 && !(countIndexed(c.Steps) > 0 && hasListInList(c.Map)) {
			if ex, eerr := mv.Exists(what, sp...); eerr != nil || ex != (len(filtered) > 0) {
				return failf("filter-mismatch", "map %s: Exists(%q, %q) = %v,%v but ValuesForPath with the same sub-keys yields %d values", js, what, sp, ex, eerr, len(filtered))
			}
		} else {
			v1, v1err := mv.ValueForKey(what, sp...)
			if len(filtered) == 0 {
				if v1err == nil {
					return failf("filter-mismatch", "map %s: ValueForKey(%q, %q) = %s without error although ValuesForKey yields nothing", js, what, sp, canon(v1))
				}
			} else if v1err != nil || !memberOf(v1, filtered) {
				return failf("filter-mismatch", "map %s: ValueForKey(%q, %q) = %s,%v is not among the filtered values %v", js, what, sp, canon(v1), v1err, gotF)
			}
		}
	}
	// (5) a sub-key argument is parsed under the separator in force at the call, whatever an earlier call saw:
	// the same argument strings under two separators, interleaved, with the case's own arguments as the first user
	{
		mm := mxj.Map{"l": []interface{}{
			map[string]interface{}{"a": "x:y", "n": "1"}, map[string]interface{}{"a|x": "y", "n": "2"}, map[string]interface{}{"a": "z", "n": "3"},
			map[string]interface{}{"b:p": "q", "n": "4"}, map[string]interface{}{"b": "p|q", "n": "5"}}}
		ns := func(spec string) string {
			vs, err := mm.ValuesForKey("l", spec)
			if err != nil {
				return "error"
			}
			var out []string
			for _, v := range vs {
				out = append(out, fmt.Sprint(v.(map[string]interface{})["n"]))
			}
			sort.Strings(out)
			return strings.Join(out, ",")
		}
		order := []string{"|", ":", "|", ":"}
		if c.Sep == ":" || c.Sep == "" {
			order = []string{":", "|", ":", "|"}
		}
		want := map[string][2]string{"|": {"1", "4"}, ":": {"2", "5"}}
		for _, sp := range order {
			mxj.SetFieldSeparator(sp)
			bystanders()
			g1, g2 := ns("a|x:y"), ns("b:p|q")
			if g1 != want[sp][0] || g2 != want[sp][1] {
				return failf("separator-leak", "under separator %q (sequence %q): ValuesForKey(l, \"a|x:y\") selects members %s want %s; (l, \"b:p|q\") selects %s want %s", sp, order, g1, want[sp][0], g2, want[sp][1])
			}
			if vs, err := mm.ValuesForPath("l", "a|x:y"); err != nil || len(vs) != 1 || fmt.Sprint(vs[0].(map[string]interface{})["n"]) != want[sp][0] {
				return failf("separator-leak", "under separator %q (sequence %q): ValuesForPath(l, \"a|x:y\") = %v,%v want member %s", sp, order, vs, err, want[sp][0])
			}
		}
		mxj.SetFieldSeparator(":")
	}
	if !reflect.DeepEqual(subject, c.Map) {
		return failf("receiver-modified", "map %s became %s", js, canon(subject))
	}
	info.ClassIf(len(depths) >= 2, "key at >=2 depths")
	if f := staleAfterChange(subject, "ValuesForKey/PathsForKey("+c.Key+")", func(v mxj.Map) string {
		vs, err := v.ValuesForKey(c.Key)
		ps := v.PathsForKey(c.Key)
		sort.Strings(ps)
		return fmt.Sprint(sortedCanon(vs), err, ps, len(strings.Split(v.PathForKeyShortest(c.Key), ".")))
	}); f != nil {
		return f
	}
	info.ClassIf(listed, "key inside a list")
	info.ClassIf(hasListInList(c.Map), "list-in-list map")
	info.ClassIf(c.Key != "*" && lilOnPathToKey(c.Map, c.Key, false), "key below a list nested in a list")
	info.ClassIf(len(c.Conds) > 0, "with sub-keys")
	info.ClassIf(passes > 0 && fails > 0, "filter: some pass, some fail")
	info.ClassIf(c.UsePath, "filter on ValuesForPath")
	info.ClassIf(c.Sep != ":", "alternative separator")
	info.NonTrivial(len(depths) >= 2 || listed || (passes > 0 && fails > 0) || (c.Key == "*" && len(want) > 1))
	return nil
}

func setKeys(m map[string]bool) []string {
	out := make([]string, 0, len(m))
	for k := range m {
		out = append(out, k)
	}
	sort.Strings(out)
	return out
}

func TestC08(t *testing.T) { runProp(t, "C08", genC08, checkC08) }
