package props

// Case recorder, known-finding matching, replay registry and the generic
// property runner shared by all checks.  One process runs one property.

import (
	"encoding/binary"
	"encoding/json"
	"fmt"
	"hash/fnv"
	"math"
	"os"
	"path/filepath"
	"reflect"
	"runtime/debug"
	"sort"
	"strings"
	"testing"

	mxj "github.com/clbanning/mxj/v2"
	"pgregory.net/rapid"
)

// Failure is what a check returns when the property does not hold for a case.
type Failure struct {
	Kind string `json:"kind"`
	Msg  string `json:"msg"`
}

func failf(kind, format string, args ...interface{}) *Failure {
	return &Failure{Kind: kind, Msg: fmt.Sprintf(format, args...)}
}

// Info is filled in by a check: class labels, the non-triviality verdict,
// leniency branches taken and the reason when the case is outside the domain.
type Info struct {
	Classes []string
	NT      bool
	Unspec  []string
	Skip    string
}

func (i *Info) Class(s string) {
	if i != nil {
		i.Classes = append(i.Classes, s)
	}
}
func (i *Info) ClassIf(b bool, s string) {
	if b {
		i.Class(s)
	}
}
func (i *Info) Unspecified(s string) {
	if i != nil {
		i.Unspec = append(i.Unspec, s)
	}
}
func (i *Info) NonTrivial(b bool) {
	if i != nil && b {
		i.NT = true
	}
}

type violation struct {
	Kind   string `json:"kind"`
	Msg    string `json:"msg"`
	Replay string `json:"replay"`
}

type recorder struct {
	Property    string            `json:"property"`
	Shard       string            `json:"shard"`
	Evaluations int               `json:"evaluations"`
	NonTrivial  int               `json:"nontrivial"`
	Distinct    int               `json:"distinct_nontrivial_shard"`
	Classes     map[string]int    `json:"classes"`
	Unspecified map[string]int    `json:"unspecified"`
	Skipped     map[string]int    `json:"skipped"`
	Known       map[string]int    `json:"excluded_known"`
	Samples     []json.RawMessage `json:"samples"`
	Violation   *violation        `json:"violation"`
	Notes       []string          `json:"notes"`

	hashes    map[uint64]struct{}
	shrinking bool
	lastFail  json.RawMessage
	lastF     *Failure
}

var rec *recorder

func newRecorder(prop string) *recorder {
	return &recorder{Property: prop, Shard: os.Getenv("VERIF_SHARD"),
		Classes: map[string]int{}, Unspecified: map[string]int{}, Skipped: map[string]int{}, Known: map[string]int{},
		hashes: map[uint64]struct{}{}, Samples: []json.RawMessage{}, Notes: []string{}}
}

func hashBytes(b []byte) uint64 {
	h := fnv.New64a()
	h.Write(b)
	return h.Sum64()
}

// sample positions: the 1st, 3rd, 10th, 30th ... non-trivial case of a shard
var samplePos = map[int]bool{1: true, 3: true, 10: true, 30: true, 100: true, 300: true, 1000: true, 3000: true, 10000: true, 30000: true, 100000: true}

func (r *recorder) note(caseJSON func() []byte, info *Info, f *Failure) {
	if r.shrinking {
		return
	}
	r.Evaluations++
	for _, c := range info.Classes {
		r.Classes[c]++
	}
	for _, u := range info.Unspec {
		r.Unspecified[u]++
	}
	if info.Skip != "" {
		r.Skipped[info.Skip]++
		return
	}
	if info.NT {
		r.NonTrivial++
		b := caseJSON()
		h := hashBytes(b)
		if _, ok := r.hashes[h]; !ok {
			r.hashes[h] = struct{}{}
			if samplePos[len(r.hashes)] && len(b) < 4000 {
				r.Samples = append(r.Samples, json.RawMessage(b))
			}
		}
	}
}

func (r *recorder) flush() {
	out := os.Getenv("VERIF_REC_OUT")
	if out == "" {
		return
	}
	r.Distinct = len(r.hashes)
	b, err := json.MarshalIndent(r, "", " ")
	if err != nil {
		panic(err)
	}
	if err := os.WriteFile(out, b, 0o644); err != nil {
		panic(err)
	}
	hs := make([]uint64, 0, len(r.hashes))
	for h := range r.hashes {
		hs = append(hs, h)
	}
	sort.Slice(hs, func(i, j int) bool { return hs[i] < hs[j] })
	hb := make([]byte, 8*len(hs))
	for i, h := range hs {
		binary.LittleEndian.PutUint64(hb[8*i:], h)
	}
	if err := os.WriteFile(out+".hashes", hb, 0o644); err != nil {
		panic(err)
	}
}

// ---------------------------------------------------------------- known findings

type knownFinding struct {
	ID       string          `json:"id"`
	Property string          `json:"property"`
	Status   string          `json:"status"` // open | fixed
	Commit   string          `json:"commit,omitempty"`
	Kind     string          `json:"failure_kind"`
	Matcher  string          `json:"matcher"`
	Repro    json.RawMessage `json:"repro,omitempty"`
	Text     string          `json:"text"`
}

var knownFindings []knownFinding

func loadKnown() {
	p := os.Getenv("VERIF_KNOWN")
	if p == "" {
		return
	}
	b, err := os.ReadFile(p)
	if err != nil {
		return
	}
	var doc struct {
		Findings []knownFinding `json:"findings"`
	}
	if err := json.Unmarshal(b, &doc); err != nil {
		panic("known_findings.json: " + err.Error())
	}
	knownFindings = doc.Findings
}

// matchers: name -> predicate over (failure, case as decoded JSON)
var matchers = map[string]func(f *Failure, c interface{}) bool{}

// matchKnown returns the id of the open finding that explains failure f on case c, or "".
func matchKnown(prop string, f *Failure, c interface{}) string {
	for _, k := range knownFindings {
		if k.Status != "open" || k.Property != prop {
			continue
		}
		if k.Kind != "" && k.Kind != f.Kind {
			continue
		}
		m := matchers[k.Matcher]
		if m != nil && m(f, c) {
			return k.ID
		}
	}
	return ""
}

// ---------------------------------------------------------------- replay registry

type replayFn func(raw []byte) (*Failure, string, error) // failure, known-id, decode error

var replayers = map[string]replayFn{}

// safely runs check, turning a panic into a Failure of kind "panic".
func safely[C any](check func(C, *Info) *Failure, c C, info *Info) (f *Failure) {
	defer func() {
		if r := recover(); r != nil {
			st := string(debug.Stack())
			// keep the frames below the panic
			if i := strings.Index(st, "panic("); i >= 0 {
				st = st[i:]
			}
			if len(st) > 1500 {
				st = st[:1500]
			}
			f = &Failure{Kind: "panic", Msg: fmt.Sprintf("panic: %v\n%s", r, st)}
		}
	}()
	return check(c, info)
}

func register[C any](prop string, check func(C, *Info) *Failure) {
	replayers[prop] = func(raw []byte) (*Failure, string, error) {
		var c C
		dec := json.NewDecoder(strings.NewReader(string(raw)))
		if err := dec.Decode(&c); err != nil {
			return nil, "", err
		}
		noise()
		f := safely(check, c, &Info{})
		if f != nil {
			return f, matchKnown(prop, f, c), nil
		}
		return nil, "", nil
	}
}

type replayFile struct {
	Property string          `json:"property"`
	Kind     string          `json:"kind,omitempty"`
	Msg      string          `json:"msg,omitempty"`
	Expect   string          `json:"expect,omitempty"` // "pass" (default) or "fail:<known id>"
	Note     string          `json:"note,omitempty"`
	Case     json.RawMessage `json:"case"`
}

// ---------------------------------------------------------------- runner

func mustJSON(v interface{}) []byte {
	b, err := json.Marshal(v)
	if err != nil {
		panic("case not serialisable: " + err.Error())
	}
	return b
}

// noise runs a small fixed battery of unrelated API calls (some of which fail) before every case - in generation
// and in replay alike. Encoding, decoding and querying are functions of their arguments alone, so nothing a
// previous call did (pooled buffers, caches, scratch state) may show in the case that follows.
var noiseMap = mxj.Map{"n": map[string]interface{}{"-a": "1", "l": []interface{}{"x", map[string]interface{}{"k": "y"}}, "t": "<&>"}}
var noiseBad = mxj.Map{"rec": map[string]interface{}{"name": "x", "tag": map[string]interface{}{"-id": nil}, "z": "tail"}}
var noiseSeq = mxj.MapSeq{"r": map[string]interface{}{"#attr": map[string]interface{}{"a": map[string]interface{}{"#text": "v", "#seq": 0}}, "e": map[string]interface{}{"#seq": 0, "#text": "t"}}}

func noise() {
	noiseBad.Xml()
	noiseBad.XmlIndent("", " ")
	noiseMap.Xml()
	noiseMap.Json()
	(mxj.Map{"f": math.NaN()}).Json()
	noiseSeq.Xml()
	mxj.NewMapXml([]byte(`<a><b>1</b><c x="2">3</a>`))
	mxj.NewMapJson([]byte(`{"a":[1,{"b":2}`))
	noiseMap.ValuesForPath("n.l.k", "k:y")
	noiseMap.ValuesForPath("n.l[5].k[")
}

// disturb runs other encoder/decoder calls; checks call it between obtaining a result and using it, because a
// result must not depend on (or be overwritten by) what the library is asked to do afterwards.
func disturb() {
	noiseMap.Xml()
	noiseMap.XmlIndent("", "  ")
	noiseMap.Json()
	noiseMap.Json(true)
	noiseMap.JsonIndent("", " ")
	if ms, err := mxj.NewMapXmlSeq([]byte(`<q w="1"><!--c--><e>5</e><f/></q>`)); err == nil {
		ms.Xml() // decoded under the options in force, so its reserved keys carry the current prefix
		ms.XmlIndent("", " ")
	}
	noiseMap.Gob()
	(mxj.Map{"z": "s"}).Xml()
	(mxj.Map{"z": "s"}).Json()
	mxj.AnyXml([]interface{}{"x", 1.5})
}

// runProp drives one property: gen draws a case, check decides it.
func runProp[C any](t *testing.T, prop string, gen func(*rapid.T) C, check func(C, *Info) *Failure) {
	if want := os.Getenv("VERIF_PROP"); want != "" && want != prop {
		t.Skip("not the selected property")
	}
	rec = newRecorder(prop)
	defer finishProp(t)
	var inflight *os.File
	if p := os.Getenv("VERIF_INFLIGHT"); p != "" {
		inflight, _ = os.OpenFile(p, os.O_CREATE|os.O_WRONLY|os.O_TRUNC, 0o644)
		defer inflight.Close()
	}
	rapid.Check(t, func(rt *rapid.T) {
		c := gen(rt)
		info := &Info{}
		noise()
		if inflight != nil {
			// a fatal runtime error (stack overflow, out of memory) cannot be recovered: leave the case on disk
			// so that the driver can report it (one positional write; a stale tail after the first JSON value is ignored)
			b, _ := json.Marshal(replayFile{Property: prop, Kind: "fatal-crash", Msg: "the process died while this case was being checked", Case: mustJSON(c)})
			_, _ = inflight.WriteAt(append(b, '\n'), 0)
		}
		f := safely(check, c, info)
		rec.note(func() []byte { return mustJSON(c) }, info, f)
		if f == nil {
			return
		}
		if id := matchKnown(prop, f, c); id != "" {
			if !rec.shrinking {
				rec.Known[id]++
			}
			return
		}
		rec.shrinking = true
		rec.lastFail = mustJSON(c)
		rec.lastF = f
		rt.Fatalf("%s: %s", f.Kind, f.Msg)
	})
}

func finishProp(t *testing.T) {
	if rec.lastF != nil {
		dir := os.Getenv("VERIF_REPLAY_DIR")
		if dir == "" {
			dir = os.TempDir()
		}
		_ = os.MkdirAll(dir, 0o755)
		name := fmt.Sprintf("%s-%016x.json", rec.Property, hashBytes(rec.lastFail))
		p := filepath.Join(dir, name)
		b, _ := json.MarshalIndent(replayFile{Property: rec.Property, Kind: rec.lastF.Kind, Msg: rec.lastF.Msg, Case: rec.lastFail}, "", " ")
		_ = os.WriteFile(p, b, 0o644)
		rec.Violation = &violation{Kind: rec.lastF.Kind, Msg: rec.lastF.Msg, Replay: p}
	} else if t.Failed() {
		// rapid reported something we did not classify (flaky, invalid data, ...)
		rec.Notes = append(rec.Notes, "test failed without a recorded failing case")
	}
	rec.flush()
}

// deepCopy of a JSON-shaped value.
func deepCopy(v interface{}) interface{} {
	switch x := v.(type) {
	case map[string]interface{}:
		m := make(map[string]interface{}, len(x))
		for k, vv := range x {
			m[k] = deepCopy(vv)
		}
		return m
	case []interface{}:
		if x == nil {
			return []interface{}(nil)
		}
		l := make([]interface{}, len(x))
		for i, vv := range x {
			l[i] = deepCopy(vv)
		}
		return l
	}
	return v
}

func copyMap(m map[string]interface{}) map[string]interface{} {
	if m == nil {
		return nil
	}
	return deepCopy(m).(map[string]interface{})
}

// canon renders a JSON-shaped value canonically (sorted keys) for multiset comparison and messages.
func canon(v interface{}) string {
	b, err := json.Marshal(v)
	if err != nil {
		if strings.Contains(err.Error(), "cycle") {
			return "<cyclic value: " + err.Error() + ">"
		}
		return fmt.Sprintf("%#v", v)
	}
	return string(b)
}

func sortedCanon(vs []interface{}) []string {
	out := make([]string, len(vs))
	for i, v := range vs {
		out[i] = canon(v)
	}
	sort.Strings(out)
	return out
}

func sameMultiset(a, b []interface{}) bool {
	if len(a) != len(b) {
		return false
	}
	x, y := sortedCanon(a), sortedCanon(b)
	for i := range x {
		if x[i] != y[i] {
			return false
		}
	}
	return true
}

// valEqual is reflect.DeepEqual on decoded values except that NaN equals NaN.
func valEqual(a, b interface{}) bool {
	switch x := a.(type) {
	case map[string]interface{}:
		y, ok := b.(map[string]interface{})
		if !ok || len(x) != len(y) || (x == nil) != (y == nil) {
			return false
		}
		for k, v := range x {
			w, ok := y[k]
			if !ok || !valEqual(v, w) {
				return false
			}
		}
		return true
	case []interface{}:
		y, ok := b.([]interface{})
		if !ok || len(x) != len(y) {
			return false
		}
		for i := range x {
			if !valEqual(x[i], y[i]) {
				return false
			}
		}
		return true
	case float64:
		y, ok := b.(float64)
		return ok && (x == y || (x != x && y != y))
	}
	return reflect.DeepEqual(a, b)
}
