package props

import (
	"encoding/binary"
	"encoding/json"
	"fmt"
	"os"
	"path/filepath"
	"sort"
	"testing"
)

func TestMain(m *testing.M) {
	loadKnown()
	code := m.Run()
	for _, f := range []string{bystanderFiles.xml, bystanderFiles.json} {
		if f != "" {
			os.Remove(f)
		}
	}
	os.Exit(code)
}

// TestReplay re-runs saved cases through the plain check function, bypassing rapid.
// VERIF_REPLAY_FILES: list of files separated by ':'; VERIF_REPLAY_OUT: result file.
func TestReplay(t *testing.T) {
	files := filepath.SplitList(os.Getenv("VERIF_REPLAY_FILES"))
	if len(files) == 0 {
		t.Skip("no replay files")
	}
	type res struct {
		File    string `json:"file"`
		Expect  string `json:"expect"`
		Outcome string `json:"outcome"` // pass | fail | known:<id> | error
		Kind    string `json:"kind,omitempty"`
		Msg     string `json:"msg,omitempty"`
		OK      bool   `json:"ok"` // outcome is what the file expects
	}
	var out []res
	for _, f := range files {
		r := res{File: f}
		b, err := os.ReadFile(f)
		var rf replayFile
		if err == nil {
			err = json.Unmarshal(b, &rf)
		}
		if err != nil {
			r.Outcome, r.Msg = "error", err.Error()
			out = append(out, r)
			continue
		}
		r.Expect = rf.Expect
		if r.Expect == "" {
			r.Expect = "pass"
		}
		fn := replayers[rf.Property]
		if fn == nil {
			r.Outcome, r.Msg = "error", "no replayer for "+rf.Property
			out = append(out, r)
			continue
		}
		fl, known, derr := fn(rf.Case)
		switch {
		case derr != nil:
			r.Outcome, r.Msg = "error", derr.Error()
		case fl == nil:
			r.Outcome = "pass"
		case known != "":
			r.Outcome, r.Kind, r.Msg = "known:"+known, fl.Kind, fl.Msg
		default:
			r.Outcome, r.Kind, r.Msg = "fail", fl.Kind, fl.Msg
		}
		switch r.Expect {
		case "pass":
			r.OK = r.Outcome == "pass"
		default: // "fail:<id>": the open finding is expected to reproduce; a pass is reported but is no alarm
			r.OK = r.Outcome == "known:"+r.Expect[len("fail:"):] || r.Outcome == "pass"
		}
		out = append(out, r)
		t.Logf("%s: %s %s %s", f, r.Outcome, r.Kind, r.Msg)
	}
	if p := os.Getenv("VERIF_REPLAY_OUT"); p != "" {
		b, _ := json.MarshalIndent(out, "", " ")
		if err := os.WriteFile(p, b, 0o644); err != nil {
			t.Fatal(err)
		}
	}
}

// TestMergeHashes counts the distinct hashes over all *.hashes files of a directory.
func TestMergeHashes(t *testing.T) {
	dir := os.Getenv("VERIF_MERGE_DIR")
	if dir == "" {
		t.Skip("no merge dir")
	}
	files, _ := filepath.Glob(filepath.Join(dir, "*.hashes"))
	var all []uint64
	for _, f := range files {
		b, err := os.ReadFile(f)
		if err != nil {
			t.Fatal(err)
		}
		for i := 0; i+8 <= len(b); i += 8 {
			all = append(all, binary.LittleEndian.Uint64(b[i:]))
		}
	}
	sort.Slice(all, func(i, j int) bool { return all[i] < all[j] })
	n := 0
	for i := range all {
		if i == 0 || all[i] != all[i-1] {
			n++
		}
	}
	if err := os.WriteFile(filepath.Join(dir, "distinct.txt"), []byte(fmt.Sprint(n)), 0o644); err != nil {
		t.Fatal(err)
	}
}
