package props

// Reference semantics of dot / wildcard / indexed paths (C07), written from the
// documentation of ValuesForPath, not from its code.

import (
	"sort"
	"strconv"
	"strings"
)

// Step is one path segment: a key or "*", with an optional index (-1: none).
type Step struct {
	Name  string `json:"name"`
	Index int    `json:"index"`
}

func pathString(steps []Step) string {
	parts := make([]string, len(steps))
	for i, s := range steps {
		if s.Index >= 0 {
			parts[i] = s.Name + "[" + strconv.Itoa(s.Index) + "]"
		} else {
			parts[i] = s.Name
		}
	}
	return strings.Join(parts, ".")
}

func stepNames(steps []Step) []string {
	out := make([]string, len(steps))
	for i, s := range steps {
		out[i] = s.Name
	}
	return out
}

func sortedKeys(m map[string]interface{}) []string {
	ks := make([]string, 0, len(m))
	for k := range m {
		ks = append(ks, k)
	}
	sort.Strings(ks)
	return ks
}

func sortedVals(m map[string]interface{}) []interface{} {
	out := make([]interface{}, 0, len(m))
	for _, k := range sortedKeys(m) {
		out = append(out, m[k])
	}
	return out
}

// stepPlain applies a non-indexed step to every value reached so far: a map
// yields its entry (or all entries for "*"); a list stands for its members -
// for a plain key also when the member is itself a list. Scalar (and list)
// members of a list are selected by "*" only.
func stepPlain(cur []interface{}, k string) []interface{} {
	var out []interface{}
	for _, v := range cur {
		switch x := v.(type) {
		case map[string]interface{}:
			if k == "*" {
				out = append(out, sortedVals(x)...)
			} else if vv, ok := x[k]; ok {
				out = append(out, vv)
			}
		case []interface{}:
			out = append(out, stepList(x, k)...)
		}
	}
	return out
}

func stepList(x []interface{}, k string) []interface{} {
	var out []interface{}
	for _, mem := range x {
		switch mm := mem.(type) {
		case map[string]interface{}:
			if k == "*" {
				out = append(out, sortedVals(mm)...)
			} else if vv, ok := mm[k]; ok {
				out = append(out, vv)
			}
		case []interface{}:
			if k == "*" {
				out = append(out, mem)
			} else {
				out = append(out, stepList(mm, k)...)
			}
		default:
			if k == "*" {
				out = append(out, mem)
			}
		}
	}
	return out
}

// expandLists replaces every list by its members (one level).
func expandLists(cur []interface{}) []interface{} {
	var out []interface{}
	for _, v := range cur {
		if l, ok := v.([]interface{}); ok {
			out = append(out, l...)
		} else {
			out = append(out, v)
		}
	}
	return out
}

// refEval returns the values the path denotes on root.
func refEval(root map[string]interface{}, steps []Step) []interface{} {
	return refEvalFrom([]interface{}{root}, steps)
}

func refEvalFrom(cur []interface{}, steps []Step) []interface{} {
	for i, s := range steps {
		if s.Index < 0 {
			cur = stepPlain(cur, s.Name)
			continue
		}
		// indexed step: for each parent separately, the i-th of the values the key alone yields
		var out []interface{}
		var parents []interface{}
		if i == 0 || steps[i-1].Index >= 0 {
			parents = cur // a value selected by an index must itself be a map to continue
		} else {
			parents = expandLists(cur)
		}
		for _, p := range parents {
			pm, ok := p.(map[string]interface{})
			if !ok {
				continue
			}
			vals := expandLists(stepPlain([]interface{}{pm}, s.Name))
			if s.Index < len(vals) {
				sel := vals[s.Index]
				rest := steps[i+1:]
				if len(rest) == 0 {
					out = append(out, sel)
				} else {
					out = append(out, refEvalFrom([]interface{}{sel}, rest)...)
				}
			}
		}
		return out
	}
	return expandLists(cur)
}

// hasListInList reports whether some list has a list as a direct member.
func hasListInList(v interface{}) bool {
	switch x := v.(type) {
	case map[string]interface{}:
		for _, vv := range x {
			if hasListInList(vv) {
				return true
			}
		}
	case []interface{}:
		for _, mem := range x {
			if _, ok := mem.([]interface{}); ok {
				return true
			}
			if hasListInList(mem) {
				return true
			}
		}
	}
	return false
}
