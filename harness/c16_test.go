package props

// C16 - encoders are deterministic and all their variants agree.

import (
	"bytes"
	"encoding/json"
	"encoding/xml"
	"fmt"
	"os"
	"path/filepath"
	"reflect"
	"sort"
	"testing"

	mxj "github.com/clbanning/mxj/v2"
	"pgregory.net/rapid"
)

type CaseC16 struct {
	Src        string                 `json:"src"` // value | doc | seq
	Map        map[string]interface{} `json:"map,omitempty"`
	Doc        *XElem                 `json:"doc,omitempty"`
	Shuffle    []int                  `json:"shuffle"` // drives insertion order and capacities of the rebuilt copies
	Prefix     string                 `json:"prefix"`
	Ind        string                 `json:"ind"`
	GoEmpty    bool                   `json:"go_empty,omitempty"`
	CheckValid bool                   `json:"check_valid,omitempty"` // XmlCheckIsValid on: with escaping on every output is valid, so nothing may change
	Alias      *AliasSpec             `json:"alias,omitempty"`       // one of the equal Maps holds a container object twice ("however they were built")
	ManyAttrs  int                    `json:"many_attrs,omitempty"`  // > 0: one element of the value carries that many attributes and as many child elements (expanded at check time)
}

func init() { register("C16", checkC16) }

func genC16(t *rapid.T) CaseC16 {
	c := CaseC16{Src: rapid.SampledFrom([]string{"value", "value", "doc", "seq"}).Draw(t, "src")}
	if rapid.IntRange(0, 2).Draw(t, "alias") == 0 {
		c.Alias = &AliasSpec{Src: rapid.IntRange(0, 30).Draw(t, "asrc"), Dst: rapid.IntRange(0, 30).Draw(t, "adst"), Key: rapid.SampledFrom(xmlKeyNames).Draw(t, "akey")}
	}
	switch c.Src {
	case "value":
		g := VGen{Keys: xmlKeyNames, Attrs: true, Nulls: true}
		m := g.Map(t, 3)
		if len(m) == 1 {
			for k, v := range m {
				if _, isList := v.([]interface{}); isList || specialKey(k) {
					m["zz"] = g.Scalar(t)
				}
			}
		}
		if rapid.IntRange(0, 5).Draw(t, "widemap") == 0 {
			for i := 0; i < 12; i++ {
				m[fmt.Sprintf("w%02d", (i*7)%12)] = g.Scalar(t)
				m[fmt.Sprintf("-a%02d", (i*5)%12)] = g.nonNullScalar(t)
			}
		}
		c.Map = m
		if rapid.IntRange(0, 299).Draw(t, "manyattrs") == 131 {
			c.ManyAttrs = rapid.SampledFrom([]int{64, 257, 300, 1025}).Draw(t, "nattrs")
		}
	case "doc":
		g := XGen{Opts: defaultOpts(), MixedText: true, Namespaces: true}
		c.Doc = g.Elem(t, 3)
	default:
		g := XGen{Opts: defaultOpts(), Extras: true, Namespaces: true, SeqKeys: true}
		c.Doc = g.Elem(t, 3)
	}
	c.Shuffle = rapid.SliceOfN(rapid.IntRange(0, 40), 8, 40).Draw(t, "shuffle")
	blanks := []string{"", " ", "  ", "\t"}
	c.Prefix = rapid.SampledFrom(blanks).Draw(t, "prefix")
	c.Ind = rapid.SampledFrom(blanks).Draw(t, "ind")
	c.GoEmpty = rapid.IntRange(0, 3).Draw(t, "goempty") == 0
	c.CheckValid = rapid.IntRange(0, 3).Draw(t, "checkvalid") == 0
	return c
}

type intStream struct {
	v []int
	i int
}

func (s *intStream) next() int {
	if len(s.v) == 0 {
		return 0
	}
	x := s.v[s.i%len(s.v)] + s.i/len(s.v)
	s.i++
	return x
}

// rebuild makes a deep copy whose maps are created with other capacities and insertion orders.
func rebuild(v interface{}, s *intStream) interface{} {
	switch x := v.(type) {
	case map[string]interface{}:
		keys := sortedKeys(x)
		rank := make(map[string]int, len(keys))
		for _, k := range keys {
			rank[k] = s.next()
		}
		sort.SliceStable(keys, func(i, j int) bool { return rank[keys[i]] < rank[keys[j]] })
		m := make(map[string]interface{}, s.next())
		for _, k := range keys {
			m[k] = rebuild(x[k], s)
		}
		return m
	case []interface{}:
		l := make([]interface{}, len(x))
		for i := range x {
			l[i] = rebuild(x[i], s)
		}
		return l
	}
	return v
}

// keeper remembers byte results together with a copy taken at once; verify() reports a result that a later call overwrote.
type keeper struct {
	names  []string
	got    [][]byte
	copies [][]byte
}

func (k *keeper) add(name string, b []byte) {
	k.names = append(k.names, name)
	k.got = append(k.got, b)
	k.copies = append(k.copies, append([]byte(nil), b...))
}

func (k *keeper) verify() *Failure {
	for i := range k.got {
		if !bytes.Equal(k.got[i], k.copies[i]) {
			return failf("result-overwritten-by-later-call", "the bytes returned by %s changed after later encoder calls: now %q, were %q", k.names[i], k.got[i], k.copies[i])
		}
	}
	return nil
}

// chunkWriter records what is written to it, in chunks.
type chunkWriter struct {
	chunks [][]byte
}

func (w *chunkWriter) Write(p []byte) (int, error) {
	w.chunks = append(w.chunks, append([]byte(nil), p...))
	return len(p), nil
}
func (w *chunkWriter) Bytes() []byte { return bytes.Join(w.chunks, nil) }

// checkSorted: attributes and child elements of every element in ascending order (list members contiguous).
func checkSorted(x []byte) *Failure {
	d := xml.NewDecoder(bytes.NewReader(x))
	var st []string
	for {
		tok, err := d.RawToken()
		if err != nil {
			return nil
		}
		switch tt := tok.(type) {
		case xml.StartElement:
			if len(st) > 0 {
				if tt.Name.Local < st[len(st)-1] {
					return failf("children-not-ascending", "element %s after %s in %q", tt.Name.Local, st[len(st)-1], x)
				}
				st[len(st)-1] = tt.Name.Local
			}
			st = append(st, "")
			prev := ""
			for _, a := range tt.Attr {
				if a.Name.Local < prev {
					return failf("attributes-not-ascending", "attribute %s after %s in %q", a.Name.Local, prev, x)
				}
				prev = a.Name.Local
			}
		case xml.EndElement:
			if len(st) > 0 {
				st = st[:len(st)-1]
			}
		}
	}
}

func maxFan(v interface{}) (children, attrs int) {
	switch x := v.(type) {
	case map[string]interface{}:
		c, a := 0, 0
		for k, vv := range x {
			if specialKey(k) {
				a++
			} else {
				c++
			}
			cc, aa := maxFan(vv)
			if cc > children {
				children = cc
			}
			if aa > attrs {
				attrs = aa
			}
		}
		if c > children {
			children = c
		}
		if a > attrs {
			attrs = a
		}
	case []interface{}:
		for _, vv := range x {
			cc, aa := maxFan(vv)
			if cc > children {
				children = cc
			}
			if aa > attrs {
				attrs = aa
			}
		}
	}
	return
}

func checkC16(c CaseC16, info *Info) *Failure {
	defer resetOptions()
	mxj.XMLEscapeChars(true)
	if c.GoEmpty {
		mxj.XmlGoEmptyElemSyntax()
	}
	if c.CheckValid {
		mxj.XmlCheckIsValid(true)
		info.Class("validity check on")
	}
	info.Class("src:" + c.Src)
	s := &intStream{v: c.Shuffle}
	scratch := os.Getenv("VERIF_SCRATCH")
	if scratch == "" {
		scratch = os.TempDir()
	}
	if c.Src == "seq" {
		if c.Doc == nil {
			info.Skip = "empty case"
			return nil
		}
		ms, err := mxj.NewMapXmlSeq([]byte(c.Doc.String()))
		if err != nil {
			return failf("decode-error", "%v", err)
		}
		ms2 := mxj.MapSeq(rebuild(map[string]interface{}(ms), s).(map[string]interface{}))
		x1, e1 := ms.Xml()
		bystanders() // "however often they are encoded": whatever else the library did in between must not matter
		x2, e2 := ms2.Xml()
		x3, _ := ms2.Xml()
		if e1 != nil || e2 != nil {
			return failf("encode-error", "%v %v", e1, e2)
		}
		if !bytes.Equal(x1, x2) || !bytes.Equal(x2, x3) {
			return failf("seq-xml-not-deterministic", "equal MapSeqs encode differently:\n%q\n%q\n%q", x1, x2, x3)
		}
		xi1, _ := ms.XmlIndent(c.Prefix, c.Ind)
		xi2, _ := ms2.XmlIndent(c.Prefix, c.Ind)
		if !bytes.Equal(xi1, xi2) {
			return failf("seq-xml-not-deterministic", "indented:\n%q\n%q", xi1, xi2)
		}
		// the same MapSeq after a JSON round trip (Copy): sequence numbers are float64 now
		if cp, cerr := mxj.Map(ms).Copy(); cerr == nil {
			msj := mxj.MapSeq(cp)
			snap := copyMap(msj)
			xj, ej := msj.Xml()
			xji, _ := msj.XmlIndent(c.Prefix, c.Ind)
			if ej != nil || !bytes.Equal(xj, x1) || !bytes.Equal(xji, xi1) {
				return failf("seq-xml-not-deterministic", "after Copy the MapSeq encodes differently:\n%q (%v)\n%q", xj, ej, x1)
			}
			if !reflect.DeepEqual(map[string]interface{}(msj), snap) {
				return failf("receiver-modified", "MapSeq.Xml changed its receiver (float64 sequence numbers)")
			}
		}
		t1, _ := rawTokens(x1)
		t2, _ := rawTokens(xi1)
		if ok, at := toksEqual(t1, t2); !ok {
			return failf("indent-differs-from-compact", "MapSeq token %d:\n%q\n%q", at, x1, xi1)
		}
		// sequence order: the output reproduces the source token stream (C04 oracle)
		if src, _ := rawTokens([]byte(c.Doc.String())); src != nil {
			if ok, at := toksEqual(t1, src); !ok {
				return failf("sequence-order", "token %d differs from the source document", at)
			}
		}
		var w chunkWriter
		if err := ms.XmlWriter(&w); err != nil || !bytes.Equal(w.Bytes(), x1) {
			return failf("writer-mismatch", "MapSeq.XmlWriter wrote %q, Xml returned %q (%v)", w.Bytes(), x1, err)
		}
		w = chunkWriter{}
		if err := ms.XmlIndentWriter(&w, c.Prefix, c.Ind); err != nil || !bytes.Equal(w.Bytes(), xi1) {
			return failf("writer-mismatch", "MapSeq.XmlIndentWriter wrote %q, XmlIndent returned %q (%v)", w.Bytes(), xi1, err)
		}
		if ms.StringIndent() != ms2.StringIndent() {
			return failf("stringindent-not-deterministic", "MapSeq.StringIndent differs for equal values")
		}
		nc, ma, _, _ := seqClasses(c.Doc)
		info.NonTrivial(nc || ma || c.Doc.countElems() >= 4)
		return nil
	}
	var m map[string]interface{}
	if c.Src == "doc" {
		if c.Doc == nil {
			info.Skip = "empty case"
			return nil
		}
		dm, err := mxj.NewMapXml([]byte(c.Doc.String()))
		if err != nil {
			return failf("decode-error", "%v", err)
		}
		m = dm
	} else {
		m = copyMap(c.Map)
		if m == nil {
			info.Skip = "empty case"
			return nil
		}
		if c.ManyAttrs > 0 {
			wide := map[string]interface{}{}
			for i := 0; i < c.ManyAttrs; i++ {
				wide[fmt.Sprintf("-h%04d", (i*7919)%c.ManyAttrs)] = fmt.Sprintf("v%d", i)
				wide[fmt.Sprintf("e%04d", (i*104729)%c.ManyAttrs)] = float64(i)
			}
			m["wide"] = wide
			info.Class("an element with 64 to 1025 attributes and as many children")
		}
		if len(m) == 1 {
			for k, v := range m {
				if _, isList := v.([]interface{}); isList || specialKey(k) {
					info.Skip = "single-key root without an element name"
					return nil
				}
			}
		}
	}
	if c.Alias != nil && c.Src == "value" {
		// the same content built three times: twice by value, once with one container object referenced from two places
		probe := copyMap(m)
		rootList := false
		if len(probe) == 1 {
			for k, v := range probe {
				_, isList := v.([]interface{})
				rootList = isList || specialKey(k)
			}
		}
		if applyAlias(probe, *c.Alias, false) && !rootList {
			if len(probe) == 1 {
				for k, v := range probe {
					_, isList := v.([]interface{})
					rootList = isList || specialKey(k)
				}
			}
		}
		if !rootList && !reflect.DeepEqual(probe, m) {
			m = probe
		} else {
			c.Alias = nil // (a single key holding a list is a root without an element name: outside the domain)
		}
	}
	m2 := rebuild(m, s).(map[string]interface{})
	m3 := rebuild(m, s).(map[string]interface{})
	if c.Alias != nil && c.Src == "value" {
		shared := copyMap(c.Map)
		if applyAlias(shared, *c.Alias, true) && reflect.DeepEqual(shared, m) {
			m2 = shared
			info.Class("one of the equal Maps shares a sub-structure")
		}
	}
	keep := &keeper{}
	x1, e1 := mxj.Map(m).Xml()
	keep.add("Map.Xml", x1)
	bystanders() // "however often they are encoded": whatever else the library did in between must not matter
	x2, e2 := mxj.Map(m2).Xml()
	x3, e3 := mxj.Map(m3).Xml()
	x4, _ := mxj.Map(m2).Xml()
	if e1 != nil || e2 != nil || e3 != nil {
		return failf("encode-error", "%v %v %v", e1, e2, e3)
	}
	if !bytes.Equal(x1, x2) || !bytes.Equal(x2, x3) || !bytes.Equal(x2, x4) {
		return failf("xml-not-deterministic", "equal Maps encode differently:\n%q\n%q\n%q\n%q", x1, x2, x3, x4)
	}
	xi1, _ := mxj.Map(m).XmlIndent(c.Prefix, c.Ind)
	keep.add("Map.XmlIndent", xi1)
	xi2, _ := mxj.Map(m2).XmlIndent(c.Prefix, c.Ind)
	xi3, _ := mxj.Map(m3).XmlIndent(c.Prefix, c.Ind)
	if !bytes.Equal(xi1, xi2) || !bytes.Equal(xi2, xi3) {
		return failf("xml-not-deterministic", "indented:\n%q\n%q\n%q", xi1, xi2, xi3)
	}
	t1, err1 := rawTokens(x1)
	t2, err2 := rawTokens(xi1)
	if err1 != nil || err2 != nil {
		return failf("not-well-formed", "%q / %q: %v %v", x1, xi1, err1, err2)
	}
	if ok, at := toksEqual(t1, t2); !ok {
		return failf("indent-differs-from-compact", "token %d:\n%q\n%q", at, x1, xi1)
	}
	if f := checkSorted(x1); f != nil {
		return f
	}
	// with an explicit root tag (also one that equals a key of the Map) the two encoders still agree
	rts := []string{"doc"}
	if len(m) > 0 {
		if k := sortedKeys(m)[len(m)/2]; !specialKey(k) {
			rts = append(rts, k)
		}
	}
	for _, rt := range rts {
		xr, er := mxj.Map(m).Xml(rt)
		xr2, _ := mxj.Map(m2).Xml(rt)
		xri, eri := mxj.Map(m3).XmlIndent(c.Prefix, c.Ind, rt)
		if er != nil || eri != nil {
			continue
		}
		if !bytes.Equal(xr, xr2) {
			return failf("xml-not-deterministic", "Xml(%q) of equal Maps:\n%q\n%q", rt, xr, xr2)
		}
		tr, e1 := rawTokens(xr)
		tri, e2 := rawTokens(xri)
		if e1 != nil && e2 != nil {
			continue // the value itself is not encodable as well-formed XML (e.g. an attribute entry at the root)
		}
		if ok, at := toksEqual(tr, tri); e1 != nil || e2 != nil || !ok {
			return failf("indent-differs-from-compact", "root tag %q, token %d:\n%q\n%q", rt, at, xr, xri)
		}
		var wr chunkWriter
		if err := mxj.Map(m).XmlWriter(&wr, rt); err != nil || !bytes.Equal(wr.Bytes(), xr) {
			return failf("writer-mismatch", "XmlWriter(root %q) wrote %q, Xml returned %q", rt, wr.Bytes(), xr)
		}
	}
	var w chunkWriter
	if err := mxj.Map(m).XmlWriter(&w); err != nil || !bytes.Equal(w.Bytes(), x1) {
		return failf("writer-mismatch", "XmlWriter wrote %q, Xml returned %q (%v)", w.Bytes(), x1, err)
	}
	w = chunkWriter{}
	if err := mxj.Map(m).XmlIndentWriter(&w, c.Prefix, c.Ind); err != nil || !bytes.Equal(w.Bytes(), xi1) {
		return failf("writer-mismatch", "XmlIndentWriter wrote %q, XmlIndent returned %q (%v)", w.Bytes(), xi1, err)
	}
	ms := mxj.Maps{mxj.Map(m), mxj.Map(m2), mxj.Map(m3)}
	for _, safe := range []bool{false, true} {
		j1, je1 := mxj.Map(m).Json(safe)
		keep.add("Map.Json", j1)
		j2, _ := mxj.Map(m2).Json(safe)
		j3, _ := mxj.Map(m3).Json(safe)
		if je1 != nil {
			return failf("encode-error", "Json: %v", je1)
		}
		if !bytes.Equal(j1, j2) || !bytes.Equal(j2, j3) {
			return failf("json-not-deterministic", "%q\n%q\n%q", j1, j2, j3)
		}
		ji, _ := mxj.Map(m2).JsonIndent(c.Prefix, c.Ind, safe)
		keep.add("Map.JsonIndent", ji)
		var cb bytes.Buffer
		if err := json.Compact(&cb, ji); err != nil || !bytes.Equal(cb.Bytes(), j1) {
			return failf("indent-differs-from-compact", "JsonIndent(safe=%v) %q compacts to %q, Json gives %q", safe, ji, cb.Bytes(), j1)
		}
		w = chunkWriter{}
		if err := mxj.Map(m).JsonWriter(&w, safe); err != nil || !bytes.Equal(w.Bytes(), j1) {
			return failf("writer-mismatch", "JsonWriter(safe=%v) wrote %q, Json returned %q (%v)", safe, w.Bytes(), j1, err)
		}
		w = chunkWriter{}
		raw, err := mxj.Map(m).JsonWriterRaw(&w, safe)
		keep.add("Map.JsonWriterRaw", raw)
		if err != nil || !bytes.Equal(raw, j1) || !bytes.Equal(w.Bytes(), j1) {
			return failf("writer-mismatch", "JsonWriterRaw(safe=%v) wrote %q returned %q, Json returned %q", safe, w.Bytes(), raw, j1)
		}
		w = chunkWriter{}
		if err := mxj.Map(m).JsonIndentWriter(&w, c.Prefix, c.Ind, safe); err != nil || !bytes.Equal(w.Bytes(), ji) {
			return failf("writer-mismatch", "JsonIndentWriter(safe=%v) wrote %q, JsonIndent returned %q", safe, w.Bytes(), ji)
		}
		w = chunkWriter{}
		raw, err = mxj.Map(m).JsonIndentWriterRaw(&w, c.Prefix, c.Ind, safe)
		keep.add("Map.JsonIndentWriterRaw", raw)
		if err != nil || !bytes.Equal(raw, ji) || !bytes.Equal(w.Bytes(), ji) {
			return failf("writer-mismatch", "JsonIndentWriterRaw(safe=%v) wrote %q returned %q, JsonIndent returned %q", safe, w.Bytes(), raw, ji)
		}
		sj, _ := ms.JsonString(safe)
		if sj != string(j1)+string(j1)+string(j1) {
			return failf("maps-string-mismatch", "Maps.JsonString(%v) = %q, per-Map encoding %q", safe, sj, j1)
		}
		si, _ := ms.JsonStringIndent(c.Prefix, c.Ind, safe)
		// the library separates the indented documents by a newline; the property's wording ("concatenation") also allows none
		if si != string(ji)+"\n"+string(ji)+"\n"+string(ji) && si != string(ji)+string(ji)+string(ji) {
			return failf("maps-string-mismatch", "Maps.JsonStringIndent(%v) = %q, per-Map encoding %q", safe, si, ji)
		}
		fn := filepath.Join(scratch, "c16.json")
		if err := ms.JsonFile(fn, safe); err != nil {
			return failf("file-error", "JsonFile: %v", err)
		}
		fb, _ := os.ReadFile(fn)
		if string(fb) != sj {
			return failf("file-form-mismatch", "Maps.JsonFile(safe=%v) wrote %q, JsonString gives %q", safe, fb, sj)
		}
		if err := ms.JsonFileIndent(fn, c.Prefix, c.Ind, safe); err != nil {
			return failf("file-error", "JsonFileIndent: %v", err)
		}
		fb, _ = os.ReadFile(fn)
		if string(fb) != si {
			return failf("file-form-mismatch", "Maps.JsonFileIndent(safe=%v) wrote %q, JsonStringIndent gives %q", safe, fb, si)
		}
	}
	sx, _ := ms.XmlString()
	if sx != string(x1)+string(x1)+string(x1) {
		return failf("maps-string-mismatch", "Maps.XmlString = %q, per-Map encoding %q", sx, x1)
	}
	sxi, _ := ms.XmlStringIndent(c.Prefix, c.Ind)
	if sxi != string(xi1)+string(xi1)+string(xi1) {
		return failf("maps-string-mismatch", "Maps.XmlStringIndent = %q, per-Map encoding %q", sxi, xi1)
	}
	fn := filepath.Join(scratch, "c16.xml")
	if err := ms.XmlFile(fn); err != nil {
		return failf("file-error", "XmlFile: %v", err)
	}
	fb, _ := os.ReadFile(fn)
	if string(fb) != sx {
		return failf("file-form-mismatch", "Maps.XmlFile wrote %q, XmlString gives %q", fb, sx)
	}
	if err := ms.XmlFileIndent(fn, c.Prefix, c.Ind); err != nil {
		return failf("file-error", "XmlFileIndent: %v", err)
	}
	fb, _ = os.ReadFile(fn)
	if string(fb) != sxi {
		return failf("file-form-mismatch", "Maps.XmlFileIndent wrote %q, XmlStringIndent gives %q", fb, sxi)
	}
	if mxj.Map(m).StringIndent() != mxj.Map(m2).StringIndent() || mxj.Map(m).StringIndent(2) != mxj.Map(m3).StringIndent(2) {
		return failf("stringindent-not-deterministic", "StringIndent differs for equal Maps")
	}
	if mxj.Map(m).StringIndentNoTypeInfo() != mxj.Map(m2).StringIndentNoTypeInfo() || mxj.Map(m).StringIndentNoTypeInfo(2) != mxj.Map(m3).StringIndentNoTypeInfo(2) {
		return failf("stringindent-not-deterministic", "StringIndentNoTypeInfo differs for equal Maps:\n%s\n%s", mxj.Map(m).StringIndentNoTypeInfo(), mxj.Map(m2).StringIndentNoTypeInfo())
	}
	// different, shorter encodings afterwards must not disturb the results handed out before
	for _, other := range []mxj.Map{{"z": "s"}, {"zz": []interface{}{"t", true}, "-a": "1"}} {
		other.Xml()
		other.XmlIndent("", " ")
		other.Json()
		other.Json(true)
		other.JsonIndent("", " ")
		other.JsonWriterRaw(&chunkWriter{})
		other.JsonIndentWriterRaw(&chunkWriter{}, "", " ", true)
	}
	// the encoders are functions of the Map's current value: after the caller changes the SAME Map object in place,
	// the encodings are those of a freshly built equal Map (nothing remembered per receiver)
	{
		changeInPlace(m)
		fresh := copyMap(m)
		for name, enc := range map[string]func(mxj.Map) ([]byte, error){
			"Xml":        func(v mxj.Map) ([]byte, error) { return v.Xml() },
			"XmlIndent":  func(v mxj.Map) ([]byte, error) { return v.XmlIndent(c.Prefix, c.Ind) },
			"Json":       func(v mxj.Map) ([]byte, error) { return v.Json() },
			"JsonIndent": func(v mxj.Map) ([]byte, error) { return v.JsonIndent(c.Prefix, c.Ind) },
		} {
			a, ea := enc(mxj.Map(m))
			b, eb := enc(mxj.Map(fresh))
			if (ea == nil) != (eb == nil) || (ea == nil && !bytes.Equal(a, b)) {
				return failf("stale-after-in-place-change", "%s after the Map was changed in place gives %q (%v), a freshly built equal Map gives %q (%v)", name, a, ea, b, eb)
			}
		}
		if mxj.Map(m).StringIndent() != mxj.Map(fresh).StringIndent() {
			return failf("stale-after-in-place-change", "StringIndent after the Map was changed in place differs from that of a freshly built equal Map")
		}
	}
	if f := keep.verify(); f != nil {
		return f
	}
	ch, at := maxFan(m)
	info.ClassIf(ch >= 3, "element with >=3 children")
	info.ClassIf(at >= 2, "element with >=2 attributes")
	info.ClassIf(ch >= 12, "wide map (>=12 keys)")
	info.NonTrivial(ch >= 3 || at >= 2)
	return nil
}

func TestC16(t *testing.T) { runProp(t, "C16", genC16, checkC16) }

// changeInPlace modifies the Map object itself: first scalar leaf (sorted walk) replaced, one key added at the root
// and in the first nested map, the first list shortened by one.
func changeInPlace(m map[string]interface{}) {
	m["zzadded"] = "1"
	leafDone, mapDone, listDone := false, false, false
	var walk func(v interface{})
	walk = func(v interface{}) {
		switch x := v.(type) {
		case map[string]interface{}:
			for _, k := range sortedKeys(x) {
				switch vv := x[k].(type) {
				case map[string]interface{}:
					if !mapDone {
						mapDone = true
						vv["zzinner"] = "2"
					}
					walk(vv)
				case []interface{}:
					if !listDone && len(vv) > 1 {
						listDone = true
						x[k] = vv[:len(vv)-1]
					}
					walk(x[k])
				case string:
					if !leafDone && !specialKey(k) {
						leafDone = true
						x[k] = vv + "CHANGED"
					}
				}
			}
		case []interface{}:
			for _, vv := range x {
				walk(vv)
			}
		}
	}
	walk(m)
}
