package props

// C18 - package options have only their documented effect and can always be restored.
// Histories of option-setter calls are run against a model of the documented option
// semantics; after every call the real option state (verif hook) and a battery of
// black-box predictions are compared with the model.

import (
	"encoding/json"
	"fmt"
	"reflect"
	"sort"
	"strings"
	"sync"
	"testing"

	mxj "github.com/clbanning/mxj/v2"
	"pgregory.net/rapid"
)

type OptCall struct {
	Name string `json:"name"`
	Form string `json:"form,omitempty"` // toggle | set | twice
	B    bool   `json:"b,omitempty"`
	S    string `json:"s,omitempty"`
	N    int    `json:"n,omitempty"`
}

type CaseC18 struct {
	Calls   []OptCall `json:"calls"`
	Restore []int     `json:"restore"` // order in which the defaults are restored
}

func init() { register("C18", checkC18) }

type optModel struct {
	Opts
	XMPP     bool
	FieldSep string
	Dot      bool
	ArrSize  int
	UseNum   bool
	SkipSet  bool
}

func defModel() optModel {
	return optModel{Opts: defaultOpts(), FieldSep: ":", ArrSize: 32}
}

var boolSetters = map[string]func(...bool){
	"IncludeTagSeqNum":        mxj.IncludeTagSeqNum,
	"CoerceKeysToLower":       mxj.CoerceKeysToLower,
	"CoerceKeysToSnakeCase":   mxj.CoerceKeysToSnakeCase,
	"DecodeSimpleValuesAsMap": mxj.DecodeSimpleValuesAsMap,
	"CastValuesToInt":         mxj.CastValuesToInt,
	"CastValuesToFloat":       mxj.CastValuesToFloat,
	"CastValuesToBool":        mxj.CastValuesToBool,
	"CastNanInf":              mxj.CastNanInf,
	"HandleXMPPStreamTag":     mxj.HandleXMPPStreamTag,
	"LeafUseDotNotation":      mxj.LeafUseDotNotation,
	"XmlCheckIsValid":         mxj.XmlCheckIsValid,
}

var boolSetterNames = []string{"CastNanInf", "CastValuesToBool", "CastValuesToFloat", "CastValuesToInt", "CoerceKeysToLower", "CoerceKeysToSnakeCase",
	"DecodeSimpleValuesAsMap", "HandleXMPPStreamTag", "IncludeTagSeqNum", "LeafUseDotNotation", "XmlCheckIsValid"}

var otherSetterNames = []string{"DisableTrimWhiteSpace", "PrependAttrWithHyphen", "SetAttrPrefix", "SetGlobalKeyMapPrefix", "XMLEscapeChars", "XMLEscapeCharsDecoder",
	"XMLEscapeChars", "XMLEscapeCharsDecoder", "SetFieldSeparator", "SetArraySize", "JsonUseNumber", "SetCheckTagToSkipFunc", "XmlGoEmptyElemSyntax", "XmlDefaultEmptyElemSyntax", "SetGlobalKeyMapPrefix"}

func (m *optModel) flag(name string) *bool {
	switch name {
	case "IncludeTagSeqNum":
		return &m.SeqNum
	case "CoerceKeysToLower":
		return &m.Lower
	case "CoerceKeysToSnakeCase":
		return &m.Snake
	case "DecodeSimpleValuesAsMap":
		return &m.SimpleAsMap
	case "CastValuesToInt":
		return &m.CastInt
	case "CastNanInf":
		return &m.CastNanInf
	case "HandleXMPPStreamTag":
		return &m.XMPP
	case "LeafUseDotNotation":
		return &m.Dot
	case "XmlCheckIsValid":
		return &m.CheckValid
	}
	return nil
}

func skipNum(k string) bool { return k == "Num" || k == "num" }

// apply performs the call on the package and on the model.
func (m *optModel) apply(c OptCall) {
	if set, ok := boolSetters[c.Name]; ok {
		var cur bool
		neg := c.Name == "CastValuesToFloat" || c.Name == "CastValuesToBool" // stored negated in Opts
		switch c.Name {
		case "CastValuesToFloat":
			cur = !m.NoCastFloat
		case "CastValuesToBool":
			cur = !m.NoCastBool
		default:
			cur = *m.flag(c.Name)
		}
		switch c.Form {
		case "toggle":
			set()
			cur = !cur
		case "twice":
			set(c.B)
			set(c.B)
			cur = c.B
		default:
			set(c.B)
			cur = c.B
		}
		switch {
		case c.Name == "CastValuesToFloat":
			m.NoCastFloat = !cur
		case c.Name == "CastValuesToBool":
			m.NoCastBool = !cur
		default:
			*m.flag(c.Name) = cur
		}
		_ = neg
		return
	}
	switch c.Name {
	case "DisableTrimWhiteSpace":
		if c.Form == "toggle" { // documented: no argument disables trimming
			mxj.DisableTrimWhiteSpace()
			m.KeepSpaces = true
		} else {
			mxj.DisableTrimWhiteSpace(c.B)
			if c.Form == "twice" {
				mxj.DisableTrimWhiteSpace(c.B)
			}
			m.KeepSpaces = c.B
		}
	case "PrependAttrWithHyphen":
		mxj.PrependAttrWithHyphen(c.B)
		if c.B {
			m.AttrPrefix = "-"
		} else {
			m.AttrPrefix = ""
		}
	case "SetAttrPrefix":
		mxj.SetAttrPrefix(c.S)
		if c.Form == "twice" {
			mxj.SetAttrPrefix(c.S)
		}
		m.AttrPrefix = c.S
	case "SetGlobalKeyMapPrefix":
		mxj.SetGlobalKeyMapPrefix(c.S)
		if c.Form == "twice" {
			mxj.SetGlobalKeyMapPrefix(c.S)
		}
		m.KeyPrefix = c.S
	case "XMLEscapeChars":
		want := c.B
		if c.Form == "toggle" {
			mxj.XMLEscapeChars()
			want = !m.EncEscape
		} else {
			mxj.XMLEscapeChars(c.B)
			if c.Form == "twice" {
				mxj.XMLEscapeChars(c.B)
			}
		}
		m.EncEscape = want && !m.DecEscape
	case "XMLEscapeCharsDecoder":
		if c.Form == "toggle" {
			mxj.XMLEscapeCharsDecoder()
			m.DecEscape = !m.DecEscape
		} else {
			mxj.XMLEscapeCharsDecoder(c.B)
			if c.Form == "twice" {
				mxj.XMLEscapeCharsDecoder(c.B)
			}
			m.DecEscape = c.B
		}
		if m.DecEscape {
			m.EncEscape = false
		}
	case "SetFieldSeparator":
		if c.Form == "toggle" { // documented: no argument resets
			mxj.SetFieldSeparator()
			m.FieldSep = ":"
		} else {
			mxj.SetFieldSeparator(c.S)
			m.FieldSep = c.S
			if c.S == "" {
				m.FieldSep = ":"
			}
		}
	case "SetArraySize":
		got := mxj.SetArraySize(c.N)
		m.ArrSize = 32
		if c.N > 32 {
			m.ArrSize = c.N
		}
		if got != m.ArrSize {
			m.ArrSize = -got // makes the state comparison fail with a readable value
		}
	case "JsonUseNumber":
		mxj.JsonUseNumber = c.B
		m.UseNum = c.B
	case "SetCheckTagToSkipFunc":
		if c.B {
			mxj.SetCheckTagToSkipFunc(skipNum)
			m.SkipTags = []string{"Num", "num"}
		} else {
			mxj.SetCheckTagToSkipFunc(nil)
			m.SkipTags = nil
		}
		m.SkipSet = c.B
	case "XmlGoEmptyElemSyntax":
		mxj.XmlGoEmptyElemSyntax()
		m.GoEmpty = true
	case "XmlDefaultEmptyElemSyntax":
		mxj.XmlDefaultEmptyElemSyntax()
		m.GoEmpty = false
	}
}

// hookState is what VerifOptionState must report for the model.
func (m optModel) hookState() map[string]interface{} {
	trim := "\t\r\b\n "
	if m.KeepSpaces {
		trim = "\t\r\b\n"
	}
	kp := m.KeyPrefix
	return map[string]interface{}{
		"attrPrefix": m.AttrPrefix, "lenAttrPrefix": len(m.AttrPrefix),
		"textK": kp + "text", "seqK": kp + "seq", "commentK": kp + "comment", "attrK": kp + "attr", "directiveK": kp + "directive",
		"procinstK": kp + "procinst", "targetK": kp + "target", "instK": kp + "inst",
		"includeTagSeqNum": m.SeqNum, "lowerCase": m.Lower, "snakeCaseKeys": m.Snake, "disableTrimWhiteSpace": m.KeepSpaces, "trimRunes": trim,
		"castToInt": m.CastInt, "castToFloat": !m.NoCastFloat, "castToBool": !m.NoCastBool, "castNanInf": m.CastNanInf, "checkTagToSkipSet": m.SkipSet,
		"handleXMPPStreamTag": m.XMPP, "decodeSimpleValuesAsMap": m.SimpleAsMap, "useGoXmlEmptyElemSyntax": m.GoEmpty, "xmlCheckIsValid": m.CheckValid,
		"xmlEscapeChars": m.EncEscape, "xmlEscapeCharsDecoder": m.DecEscape, "fieldSep": m.FieldSep, "defaultArraySize": m.ArrSize, "useDotNotation": m.Dot,
		"JsonUseNumber": m.UseNum, "CustomDecoderSet": false, "XmlCharsetReaderSet": false,
	}
}

func diffState(got, want map[string]interface{}) string {
	var out []string
	for k, w := range want {
		if g, ok := got[k]; !ok || !reflect.DeepEqual(g, w) {
			out = append(out, fmt.Sprintf("%s=%#v (model %#v)", k, g, w))
		}
	}
	sort.Strings(out)
	return strings.Join(out, ", ")
}

const probeDoc = `<Ro-ot A-b="1 &amp; 2" c="x"><It-em>  t&lt;1 </It-em><It-em k="v"> t2<Sub>7</Sub></It-em><e/><Num>1.50</Num><B>true</B><N>Inf</N><I>42</I><One z="0">1</One><Zero>0</Zero><T>T</T><Big>18446744073709551615</Big><Ovf>1e999</Ovf><Dot>.5</Dot>` + "<Ws>\u00a0n\u00a0</Ws><Ws2>\u2003m\u3000</Ws2><Ws3>\u0085v\u2028</Ws3><Ws4>\ufeffb\u200b</Ws4><Ws5 a=\"  p  \">\t\r\n q \t\r\n</Ws5>" + `</Ro-ot>`

var probeElem = &XElem{Local: "Ro-ot", Attrs: []XAttr{{Local: "A-b", Value: "1 & 2"}, {Local: "c", Value: "x"}}, Items: []XItem{
	{Kind: kElem, El: &XElem{Local: "It-em", Items: []XItem{{Kind: kText, Text: "  t<1 "}}}},
	{Kind: kElem, El: &XElem{Local: "It-em", Attrs: []XAttr{{Local: "k", Value: "v"}}, Items: []XItem{{Kind: kText, Text: " t2"}, {Kind: kElem, El: &XElem{Local: "Sub", Items: []XItem{{Kind: kText, Text: "7"}}}}}}},
	{Kind: kElem, El: &XElem{Local: "e"}},
	{Kind: kElem, El: &XElem{Local: "Num", Items: []XItem{{Kind: kText, Text: "1.50"}}}},
	{Kind: kElem, El: &XElem{Local: "B", Items: []XItem{{Kind: kText, Text: "true"}}}},
	{Kind: kElem, El: &XElem{Local: "N", Items: []XItem{{Kind: kText, Text: "Inf"}}}},
	{Kind: kElem, El: &XElem{Local: "I", Items: []XItem{{Kind: kText, Text: "42"}}}},
	// texts that several cast options could claim: which one does is decided by the documented order (int, float, bool)
	{Kind: kElem, El: &XElem{Local: "One", Attrs: []XAttr{{Local: "z", Value: "0"}}, Items: []XItem{{Kind: kText, Text: "1"}}}},
	{Kind: kElem, El: &XElem{Local: "Zero", Items: []XItem{{Kind: kText, Text: "0"}}}},
	{Kind: kElem, El: &XElem{Local: "T", Items: []XItem{{Kind: kText, Text: "T"}}}},
	{Kind: kElem, El: &XElem{Local: "Big", Items: []XItem{{Kind: kText, Text: "18446744073709551615"}}}},
	{Kind: kElem, El: &XElem{Local: "Ovf", Items: []XItem{{Kind: kText, Text: "1e999"}}}},
	{Kind: kElem, El: &XElem{Local: "Dot", Items: []XItem{{Kind: kText, Text: ".5"}}}},
	// characters that LOOK like white space at the edges of text: the trimming cut set is package state too
	{Kind: kElem, El: &XElem{Local: "Ws", Items: []XItem{{Kind: kText, Text: "\u00a0n\u00a0"}}}},
	{Kind: kElem, El: &XElem{Local: "Ws2", Items: []XItem{{Kind: kText, Text: "\u2003m\u3000"}}}},
	{Kind: kElem, El: &XElem{Local: "Ws3", Items: []XItem{{Kind: kText, Text: "\u0085v\u2028"}}}},
	{Kind: kElem, El: &XElem{Local: "Ws4", Items: []XItem{{Kind: kText, Text: "\ufeffb\u200b"}}}},
	{Kind: kElem, El: &XElem{Local: "Ws5", Attrs: []XAttr{{Local: "a", Value: "  p  "}}, Items: []XItem{{Kind: kText, Text: "\t\n q \t\n"}}}},
}}

// battery: a fixed set of decode/encode/query results rendered as one string.
func battery() string {
	var sb strings.Builder
	m, err := mxj.NewMapXml([]byte(probeDoc))
	fmt.Fprintf(&sb, "M:%s|%v\n", canon(map[string]interface{}(m)), err)
	mc, err := mxj.NewMapXml([]byte(probeDoc), true)
	fmt.Fprintf(&sb, "MC:%#v|%v\n", sortedRender(mc), err)
	ms, err := mxj.NewMapXmlSeq([]byte(probeDoc), true)
	fmt.Fprintf(&sb, "S:%s|%v\n", sortedRender(ms), err)
	st, err := mxj.NewMapXml([]byte(`<stream:stream x="1"><a>1</a></stream:stream>`))
	fmt.Fprintf(&sb, "XMPP:%s|%v\n", canon(map[string]interface{}(st)), err)
	fixed := mxj.Map{"r": map[string]interface{}{"-a": "<&>", "#text": "x y", "e": "", "l": []interface{}{"1", map[string]interface{}{"-a": "1", "b": "2"}}}}
	x, err := fixed.Xml()
	fmt.Fprintf(&sb, "X:%s|%v\n", x, err)
	xi, err := fixed.XmlIndent("", " ")
	fmt.Fprintf(&sb, "XI:%s|%v\n", xi, err)
	fs := mxj.MapSeq{"r": map[string]interface{}{"#attr": map[string]interface{}{"a": map[string]interface{}{"#text": "<", "#seq": 0}}, "e": map[string]interface{}{"#seq": 0, "#text": ""}}}
	sx, err := fs.Xml()
	fmt.Fprintf(&sb, "SX:%s|%v\n", sx, err)
	// element names that would be reserved keys under another key prefix are ordinary elements
	fs2 := mxj.MapSeq{"doc": map[string]interface{}{
		"_comment":   map[string]interface{}{"#text": "keep", "#seq": 0},
		"$directive": map[string]interface{}{"#text": "x", "#seq": 1},
		"%comment":   map[string]interface{}{"#text": "y", "#seq": 2},
		"_attr":      map[string]interface{}{"#text": "z", "#seq": 3},
		"!procinst":  map[string]interface{}{"#text": "w", "#seq": 4},
		"~text":      map[string]interface{}{"#text": "v", "#seq": 5}}}
	sx2, err := fs2.Xml()
	fmt.Fprintf(&sb, "SX2:%s|%v\n", sx2, err)
	fm2 := mxj.Map{"doc": map[string]interface{}{"_text": "a", "$text": "b", "@x": "c", "attr_y": "d", "_seq": "e"}}
	mx2, err := fm2.Xml()
	fmt.Fprintf(&sb, "MX2:%s|%v\n", mx2, err)
	lp := fixed.LeafPaths()
	sort.Strings(lp)
	var ln []string
	for _, l := range fixed.LeafNodes(true) {
		ln = append(ln, fmt.Sprintf("%s=%v", l.Path, l.Value))
	}
	sort.Strings(ln)
	fmt.Fprintf(&sb, "L:%v|%v\n", lp, ln)
	v, err := fixed.ValuesForPath("r.l", "-a:1")
	fmt.Fprintf(&sb, "V:%v|%v\n", v, err)
	v, err = fixed.ValuesForPath("r.l", "-a|1")
	fmt.Fprintf(&sb, "V2:%v|%v\n", v, err)
	n, err := mxj.Map(copyMap(fixed)).UpdateValuesForPath("b:9", "r.l")
	fmt.Fprintf(&sb, "U:%v|%v\n", n, err)
	j, err := mxj.NewMapJson([]byte(`{"a":1.50}`))
	fmt.Fprintf(&sb, "J:%#v|%v\n", j, err)
	jb, err := mxj.Map{"a": "<&>"}.Json()
	fmt.Fprintf(&sb, "JE:%s|%v\n", jb, err)
	el, err := fixed.Elements("r")
	at, err2 := fixed.Attributes("r")
	fmt.Fprintf(&sb, "EA:%v|%v|%v|%v\n", el, err, at, err2)
	return sb.String()
}

func sortedRender(m map[string]interface{}) string {
	b, _ := json.Marshal(sanitize(m))
	return string(b)
}

// sanitize makes NaN/Inf and typed ints printable through encoding/json.
func sanitize(v interface{}) interface{} {
	switch x := v.(type) {
	case mxj.Map:
		return sanitize(map[string]interface{}(x))
	case mxj.MapSeq:
		return sanitize(map[string]interface{}(x))
	case map[string]interface{}:
		m := map[string]interface{}{}
		for k, vv := range x {
			m[k] = sanitize(vv)
		}
		return m
	case []interface{}:
		l := make([]interface{}, len(x))
		for i := range x {
			l[i] = sanitize(x[i])
		}
		return l
	case string:
		return x
	}
	return fmt.Sprintf("%T:%v", v, v)
}

// indepBattery: results that no package option is documented to influence (keys and values chosen so that
// neither prefixes, separators, escaping nor casting apply); it must never change.
func indepBattery() string {
	var sb strings.Builder
	m := mxj.Map{"r": map[string]interface{}{"l": []interface{}{map[string]interface{}{"b": "x", "c": "y"}, map[string]interface{}{"b": "z"}}, "q": map[string]interface{}{"b": "w"}, "t": "v",
		"Up-Per": map[string]interface{}{"Key_A": []interface{}{"u1", map[string]interface{}{"In-Ner": "u2"}}}}}
	up, err := m.ValuesForPath("r.Up-Per.Key_A.In-Ner")
	fmt.Fprintf(&sb, "UP:%v|%v|%v|%d\n", up, err, sortedCanon(mustVals(m.ValuesForKey("In-Ner"))), len(m.PathsForKey("Key_A")))
	n, err := m.NewMap("r.l:x.y", "r.q.b:z", "r.t")
	fmt.Fprintf(&sb, "NM:%s|%v\n", canon(map[string]interface{}(n)), err)
	p := m.PathsForKey("b")
	sort.Strings(p)
	fmt.Fprintf(&sb, "PK:%v|%d\n", p, len(strings.Split(m.PathForKeyShortest("b"), ".")))
	vk, err := m.ValuesForKey("b")
	fmt.Fprintf(&sb, "VK:%v|%v\n", sortedCanon(vk), err)
	vp, err := m.ValuesForPath("r.l.b")
	fmt.Fprintf(&sb, "VP:%v|%v\n", vp, err)
	vi, err := m.ValuesForPath("r.l[1].b")
	fmt.Fprintf(&sb, "VI:%v|%v\n", vi, err)
	ex, err := m.Exists("r.q.b")
	fmt.Fprintf(&sb, "EX:%v|%v\n", ex, err)
	c1 := mxj.Map(copyMap(m))
	e1 := c1.RenameKey("r.q", "renamed")
	e2 := c1.Remove("r.t")
	e3 := c1.SetValueForPath("set", "r.l.new")
	cnt, e4 := c1.UpdateValuesForPath(map[string]interface{}{"b": "U"}, "r.l.b")
	fmt.Fprintf(&sb, "MUT:%s|%v %v %v %d %v\n", canon(map[string]interface{}(c1)), e1, e2, e3, cnt, e4)
	cp, err := m.Copy()
	fmt.Fprintf(&sb, "CP:%s|%v\n", canon(map[string]interface{}(cp)), err)
	g, err := m.Gob()
	gm, err2 := mxj.NewMapGob(g)
	fmt.Fprintf(&sb, "GOB:%s|%v %v\n", canon(map[string]interface{}(gm)), err, err2)
	lv := m.LeafValues()
	fmt.Fprintf(&sb, "LV:%v\n", sortedCanon(lv))
	r, err := m.Root()
	fmt.Fprintf(&sb, "ROOT:%s|%v\n", r, err)
	si := m.StringIndent()
	fmt.Fprintf(&sb, "SI:%s\n", si)
	return sb.String()
}

func mustVals(v []interface{}, _ error) []interface{} { return v }

var (
	baseOnce    sync.Once
	baseBattery string
	baseIndep   string
)

var restoreSteps = []func(){
	func() { mxj.SetAttrPrefix("-") },
	func() { mxj.SetGlobalKeyMapPrefix("#") },
	func() { mxj.CoerceKeysToLower(false) },
	func() { mxj.CoerceKeysToSnakeCase(false) },
	func() { mxj.DecodeSimpleValuesAsMap(false) },
	func() { mxj.DisableTrimWhiteSpace(false) },
	func() { mxj.IncludeTagSeqNum(false) },
	func() { mxj.XMLEscapeChars(false) },
	func() { mxj.XMLEscapeCharsDecoder(false) },
	func() { mxj.CastValuesToInt(false) },
	func() { mxj.CastValuesToFloat(true) },
	func() { mxj.CastValuesToBool(true) },
	func() { mxj.CastNanInf(false) },
	func() { mxj.SetCheckTagToSkipFunc(nil) },
	func() { mxj.XmlDefaultEmptyElemSyntax() },
	func() { mxj.XmlCheckIsValid(false) },
	func() { mxj.HandleXMPPStreamTag(false) },
	func() { mxj.SetFieldSeparator() },
	func() { mxj.SetArraySize(0) },
	func() { mxj.LeafUseDotNotation(false) },
	func() { mxj.JsonUseNumber = false },
}

func genOptCall(t *rapid.T) OptCall {
	var call OptCall
	if rapid.Bool().Draw(t, "boolsetter") {
		call.Name = rapid.SampledFrom(boolSetterNames).Draw(t, "name")
	} else {
		call.Name = rapid.SampledFrom(otherSetterNames).Draw(t, "oname")
	}
	call.Form = rapid.SampledFrom([]string{"toggle", "set", "set", "twice"}).Draw(t, "form")
	call.B = rapid.Bool().Draw(t, "b")
	switch call.Name {
	case "SetAttrPrefix":
		call.S = rapid.SampledFrom([]string{"-", "@", "", "attr_", "_"}).Draw(t, "prefix")
	case "SetGlobalKeyMapPrefix":
		call.S = rapid.SampledFrom([]string{"#", "$", "%", "_", "!", "~", "#"}).Draw(t, "kprefix")
	case "SetFieldSeparator":
		call.S = rapid.SampledFrom([]string{"", "|", ":", "::", ";"}).Draw(t, "sep")
	case "SetArraySize":
		call.N = rapid.SampledFrom([]int{0, 1, 31, 32, 33, 100, -5}).Draw(t, "size")
	}
	return call
}

func genC18(t *rapid.T) CaseC18 {
	var c CaseC18
	c.Calls = rapid.SliceOfN(rapid.Custom(genOptCall), 1, 25).Draw(t, "calls")
	idx := make([]int, len(restoreSteps))
	for i := range idx {
		idx[i] = i
	}
	c.Restore = rapid.Permutation(idx).Draw(t, "restore")
	return c
}

// predictions: black-box behaviour that the model state implies.
func (m optModel) predictions() *Failure {
	ap, kp := m.AttrPrefix, m.KeyPrefix
	if ap != kp {
		// decoding (Map decoder): every decoder option; no encoder option
		for _, cast := range []bool{false, true} {
			o := m.Opts
			o.Cast = cast
			got, err := mxj.NewMapXml([]byte(probeDoc), cast)
			k, v := refDecode(probeElem, o)
			want := map[string]interface{}{k: v}
			if err != nil || !valEqual(map[string]interface{}(got), want) {
				return failf("decode-prediction", "NewMapXml(probe, cast=%v) under %+v\n got  %#v (%v)\n want %#v", cast, m, got, err, want)
			}
		}
	}
	// the sequence decoder does not depend on attribute prefix, lower-case, simple-as-map, tag sequence numbers, skip-tag function
	s1, e1 := mxj.NewMapXmlSeq([]byte(probeDoc), true)
	mxj.SetAttrPrefix("-")
	mxj.CoerceKeysToLower(false)
	mxj.DecodeSimpleValuesAsMap(false)
	mxj.IncludeTagSeqNum(false)
	mxj.SetCheckTagToSkipFunc(nil)
	s2, e2 := mxj.NewMapXmlSeq([]byte(probeDoc), true)
	mxj.SetAttrPrefix(ap)
	mxj.CoerceKeysToLower(m.Lower)
	mxj.DecodeSimpleValuesAsMap(m.SimpleAsMap)
	mxj.IncludeTagSeqNum(m.SeqNum)
	if m.SkipSet {
		mxj.SetCheckTagToSkipFunc(skipNum)
	}
	if (e1 == nil) != (e2 == nil) || !valEqual(map[string]interface{}(s1), map[string]interface{}(s2)) {
		return failf("seq-isolation", "NewMapXmlSeq depends on attribute prefix / lower-case / simple-as-map / seq-num / skip function under %+v:\n %#v\n %#v", m, s1, s2)
	}
	// ... and neither does the sequence ENCODER: element names that begin with an attribute prefix are ordinary elements
	seqEnc := func() string {
		ms := mxj.MapSeq{"doc": map[string]interface{}{
			"#attr":  map[string]interface{}{"_a": map[string]interface{}{"#text": "1", "#seq": 0}, "attr_b": map[string]interface{}{"#text": "2", "#seq": 1}},
			"_id":    map[string]interface{}{"#text": "5", "#seq": 0},
			"attr_x": map[string]interface{}{"#seq": 1, "sub": map[string]interface{}{"#text": "s", "#seq": 0}},
			"-h":     map[string]interface{}{"#text": "6", "#seq": 2},
			"@at":    map[string]interface{}{"#text": "7", "#seq": 3},
			"name":   []interface{}{map[string]interface{}{"#text": "x", "#seq": 4}, map[string]interface{}{"#text": "y", "#seq": 5, "_n": map[string]interface{}{"#text": "z", "#seq": 0}}},
		}}
		// written with the default key prefix; skip when another one is in force (the reserved keys then differ)
		x, err := ms.Xml()
		xi, err2 := ms.XmlIndent("", " ")
		return fmt.Sprintf("%s|%v|%s|%v", x, err, xi, err2)
	}
	if kp == "#" {
		q1 := seqEnc()
		mxj.SetAttrPrefix("-")
		mxj.CoerceKeysToLower(false)
		q2 := seqEnc()
		mxj.SetAttrPrefix(ap)
		mxj.CoerceKeysToLower(m.Lower)
		if q1 != q2 {
			return failf("seq-isolation", "MapSeq.Xml depends on the attribute prefix / lower-case switch under %+v:\n %s\n %s", m, q1, q2)
		}
	}
	// its text key follows the key prefix, snake-case is applied, nothing is lower-cased
	if e1 == nil {
		root := "Ro-ot"
		if m.Snake {
			root = "Ro_ot"
		}
		rm, ok := s1[root].(map[string]interface{})
		if !ok {
			return failf("seq-prediction", "NewMapXmlSeq root key under %+v: %#v", m, s1)
		}
		attrs, ok := rm[kp+"attr"].(map[string]interface{})
		if !ok {
			return failf("seq-prediction", "NewMapXmlSeq attribute key %q missing under %+v: %#v", kp+"attr", m, rm)
		}
		// values: escaped iff decoder-side escaping is on (the encoder-side switch must not matter)
		ak, ik := "A-b", "It-em"
		if m.Snake {
			ak, ik = "A_b", "It_em"
		}
		wantA, wantT := "1 & 2", "t<1"
		if m.KeepSpaces {
			wantT = "  t<1 "
		}
		if m.DecEscape {
			wantA, wantT = mxjEsc(wantA), mxjEsc(wantT)
		}
		am, _ := attrs[ak].(map[string]interface{})
		if am == nil || am[kp+"text"] != wantA {
			return failf("seq-prediction", "NewMapXmlSeq attribute %q under %+v = %#v want %q", ak, m, attrs[ak], wantA)
		}
		if il, ok := rm[ik].([]interface{}); ok && len(il) == 2 {
			if im, _ := il[0].(map[string]interface{}); im == nil || im[kp+"text"] != wantT {
				return failf("seq-prediction", "NewMapXmlSeq text of %q under %+v = %#v want %q", ik, m, il[0], wantT)
			}
		} else {
			return failf("seq-prediction", "NewMapXmlSeq %q under %+v = %#v", ik, m, rm[ik])
		}
	}
	// JSON: JsonUseNumber only
	j, jerr := mxj.NewMapJson([]byte(`{"a":1.50,"b":[true,null,"x<"]}`))
	var wantNum interface{} = 1.5
	if m.UseNum {
		wantNum = json.Number("1.50")
	}
	if jerr != nil || !reflect.DeepEqual(map[string]interface{}(j), map[string]interface{}{"a": wantNum, "b": []interface{}{true, nil, "x<"}}) {
		return failf("json-prediction", "NewMapJson under %+v = %#v,%v", m, j, jerr)
	}
	if jb, err := (mxj.Map{"-a": "<&>", "B": 1.5}).Json(); err != nil || string(jb) != `{"-a":"<&>","B":1.5}` {
		return failf("json-prediction", "Json under %+v = %s,%v", m, jb, err)
	}
	if jb, err := (mxj.Map{"-a": "<&>"}).Json(true); err != nil || string(jb) != `{"-a":"\u003c\u0026\u003e"}` {
		return failf("json-prediction", "Json(safe) under %+v = %s,%v", m, jb, err)
	}
	// encoders: attribute prefix, key prefix, encoder-side escaping, empty-element syntax, validity check
	lt := "<"
	if m.EncEscape {
		lt = "&lt;"
	}
	empty := "<e/>"
	if m.GoEmpty {
		empty = "<e></e>"
	}
	wantErr := m.CheckValid && !m.EncEscape
	if ap != "" && ap != kp && !strings.HasPrefix(kp+"text", ap) {
		x, err := (mxj.Map{"r": map[string]interface{}{ap + "a": "<", kp + "text": "t", "e": ""}}).Xml()
		want := `<r a="` + lt + `">t` + empty + `</r>`
		if wantErr {
			if err == nil {
				return failf("encode-prediction", "Map.Xml under %+v returned %q without error", m, x)
			}
		} else if err != nil || string(x) != want {
			return failf("encode-prediction", "Map.Xml under %+v = %q,%v want %q", m, x, err, want)
		}
	}
	sx, serr := (mxj.MapSeq{"r": map[string]interface{}{kp + "attr": map[string]interface{}{"a": map[string]interface{}{kp + "text": "<", kp + "seq": 0}},
		"e": map[string]interface{}{kp + "seq": 0, kp + "text": ""}, "f": map[string]interface{}{kp + "seq": 1, kp + "text": "v"}}}).Xml()
	wantS := `<r a="` + lt + `">` + empty + `<f>v</f></r>`
	if wantErr {
		if serr == nil {
			return failf("encode-prediction", "MapSeq.Xml under %+v returned %q without error", m, sx)
		}
	} else if serr != nil || string(sx) != wantS {
		return failf("encode-prediction", "MapSeq.Xml under %+v = %q,%v want %q", m, sx, serr, wantS)
	}
	// leaf paths: dot notation, attribute prefix
	lm := mxj.Map{"r": map[string]interface{}{"l": []interface{}{"x", map[string]interface{}{"k": "y"}}, "Zattr": "1"}}
	if ap != "" {
		lm = mxj.Map{"r": map[string]interface{}{"l": []interface{}{"x", map[string]interface{}{"k": "y"}}, ap + "q": "1"}}
	}
	lp := lm.LeafPaths(true)
	sort.Strings(lp)
	wantLP := []string{"r.l[0]", "r.l[1].k"}
	if m.Dot {
		wantLP = []string{"r.l.0", "r.l.1.k"}
	}
	if ap == "" {
		wantLP = append(wantLP, "r.Zattr")
		sort.Strings(wantLP)
	}
	if !reflect.DeepEqual(lp, wantLP) {
		return failf("leaf-prediction", "LeafPaths(true) under %+v = %v want %v", m, lp, wantLP)
	}
	// Elements / Attributes: the entries that begin with the attribute prefix are the attributes, reported without the
	// prefix and nothing else taken off (labels that themselves begin with characters of the prefix)
	{
		labels := []string{"_id", "type", "attr_x", "-h", "@at", "aattr", "__x", "rate"}
		em := map[string]interface{}{"e": "4", "tail": "5", "Z_": "6"}
		for _, l := range labels {
			em[ap+l] = "v"
		}
		am := mxj.Map{"r": em}
		gotA, aerr := am.Attributes("r")
		gotE, eerr := am.Elements("r")
		var wantA, wantE []string
		for k := range em {
			if ap != "" && strings.HasPrefix(k, ap) {
				wantA = append(wantA, k[len(ap):])
			} else {
				wantE = append(wantE, k)
			}
		}
		sort.Strings(wantA)
		sort.Strings(wantE)
		if aerr != nil || eerr != nil || !reflect.DeepEqual(append([]string{}, gotA...), append([]string{}, wantA...)) || !reflect.DeepEqual(append([]string{}, gotE...), append([]string{}, wantE...)) {
			return failf("attributes-prediction", "under %+v: Attributes = %v (%v) want %v; Elements = %v (%v) want %v", m, gotA, aerr, wantA, gotE, eerr, wantE)
		}
	}
	// sub-key field separator
	qm := mxj.Map{"r": map[string]interface{}{"l": []interface{}{map[string]interface{}{"a": "1", "b": "x"}, map[string]interface{}{"a": "2"}}}}
	v, err := qm.ValuesForPath("r.l", "a"+m.FieldSep+"1")
	if err != nil || len(v) != 1 {
		return failf("separator-prediction", "ValuesForPath with separator %q under %+v = %v,%v", m.FieldSep, m, v, err)
	}
	other := "|"
	if strings.Contains(m.FieldSep, "|") {
		other = ":"
	}
	if m.FieldSep != other && !strings.Contains(other, m.FieldSep) {
		// written with ANOTHER separator the argument is no condition on member "a": an error, or a condition nothing
		// satisfies - never the filtered result (which of the two is not the option's business)
		if v, err := qm.ValuesForPath("r.l", "a"+other+"1"); err == nil && len(v) == 1 {
			return failf("separator-prediction", "sub-key with separator %q taken for a condition although the separator is %q: %v", other, m.FieldSep, v)
		}
	}
	return nil
}

// taken at package initialisation, after the library's own initialisation and before any option setter is called
var freshBattery, freshIndep = battery(), indepBattery()

func checkC18(c CaseC18, info *Info) *Failure {
	resetOptions()
	defer resetOptions()
	m := defModel()
	if d := diffState(mxj.VerifOptionState(), m.hookState()); d != "" {
		return failf("harness-state-leak", "options not at their defaults at the start of the case: %s", d)
	}
	baseOnce.Do(func() { baseBattery = battery(); baseIndep = indepBattery() })
	// freshBattery was taken while the package variables were initialised: before ANY setter had been called in this
	// process. The base above comes after resetOptions() has called every setter with its default.
	if baseBattery != freshBattery || baseIndep != freshIndep {
		return failf("not-restored", "behaviour after calling every setter with its documented default differs from a process that never called one:\n%s%s\n--- never called:\n%s%s", baseBattery, baseIndep, freshBattery, freshIndep)
	}
	names := map[string]bool{}
	toggles, escBoth, kpChanges := 0, map[string]bool{}, 0
	for i, call := range c.Calls {
		m.apply(call)
		names[call.Name] = true
		if call.Form == "toggle" {
			toggles++
		}
		if strings.HasPrefix(call.Name, "XMLEscapeChars") {
			escBoth[call.Name] = true
		}
		if call.Name == "SetGlobalKeyMapPrefix" {
			kpChanges++
		}
		if d := diffState(mxj.VerifOptionState(), m.hookState()); d != "" {
			return failf("option-state", "after call %d %+v of %+v: %s", i, call, c.Calls[:i+1], d)
		}
		if f := m.predictions(); f != nil {
			f.Msg = fmt.Sprintf("after call %d of %+v: %s", i, c.Calls[:i+1], f.Msg)
			return f
		}
		if ib := indepBattery(); ib != baseIndep {
			return failf("option-affects-unrelated-behaviour", "after call %d of %+v a result that no option documents to influence changed:\n%s\n--- with default options:\n%s", i, c.Calls[:i+1], ib, baseIndep)
		}
		if d := diffState(mxj.VerifOptionState(), m.hookState()); d != "" {
			return failf("harness-state-leak", "the prediction battery changed the options: %s", d)
		}
		// only the setters change options: encoders, decoders, BeautifyXml, the wrappers ... leave every option as it is
		bystanders()
		if d := diffState(mxj.VerifOptionState(), m.hookState()); d != "" {
			return failf("option-changed-by-a-non-setter", "after call %d of %+v, functions that are no option setters (see bystanders) changed the option state: %s", i, c.Calls[:i+1], d)
		}
	}
	// restore every default, in the drawn order
	seen := map[int]bool{}
	for _, i := range c.Restore {
		if i >= 0 && i < len(restoreSteps) && !seen[i] {
			seen[i] = true
			restoreSteps[i]()
		}
	}
	for i := range restoreSteps {
		if !seen[i] {
			restoreSteps[i]()
		}
	}
	if d := diffState(mxj.VerifOptionState(), defModel().hookState()); d != "" {
		return failf("not-restored", "after %+v and restoring all defaults (order %v): %s", c.Calls, c.Restore, d)
	}
	if b := battery(); b != baseBattery {
		return failf("not-restored", "behaviour after %+v and restoring defaults differs from a fresh process:\n%s\n--- fresh:\n%s", c.Calls, b, baseBattery)
	}
	info.ClassIf(len(names) >= 2, ">=2 different setters")
	info.ClassIf(len(escBoth) == 2, "both escaping switches")
	info.ClassIf(kpChanges >= 2, ">=2 key-prefix changes")
	info.ClassIf(toggles > 0, "a toggle form")
	info.NonTrivial(len(names) >= 2 && (len(escBoth) == 2 || kpChanges >= 2 || toggles > 0))
	return nil
}

func TestC18(t *testing.T) { runProp(t, "C18", genC18, checkC18) }
