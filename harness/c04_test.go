package props

// C04 - MapSeq round trip preserves order, attributes, comments and instructions.

import (
	"bytes"
	"fmt"
	"reflect"
	"regexp"
	"testing"

	mxj "github.com/clbanning/mxj/v2"
	"pgregory.net/rapid"
)

type CaseC04 struct {
	Doc     *XElem `json:"doc"`
	GoEmpty bool   `json:"go_empty,omitempty"` // XmlGoEmptyElemSyntax for the encoders
	Prefix  string `json:"prefix"`
	Ind     string `json:"ind"`
	Keep    bool   `json:"keep_spaces,omitempty"` // DisableTrimWhiteSpace(true): blanks at the edges of text are content, "the same text" includes them
}

func init() { register("C04", checkC04) }

func genC04(t *rapid.T) CaseC04 {
	g := XGen{Opts: defaultOpts(), MixedText: false, Extras: true, Namespaces: true, Wide: true, SeqKeys: true}
	keep := rapid.IntRange(0, 3).Draw(t, "keepspaces") == 0
	g.Opts.KeepSpaces = keep
	c := CaseC04{Doc: g.Elem(t, rapid.IntRange(1, 4).Draw(t, "depth")), Keep: keep}
	blanks := []string{"", " ", "  ", "\t", "    "}
	if keep {
		blanks = []string{"", "\t", "\t\t"} // an indent of spaces is content under keep-spaces
	}
	c.Prefix = rapid.SampledFrom(blanks).Draw(t, "prefix")
	c.Ind = rapid.SampledFrom(blanks).Draw(t, "ind")
	c.GoEmpty = rapid.IntRange(0, 3).Draw(t, "goempty") == 0
	return c
}

var fmtRe = regexp.MustCompile(`>[\n\t\r ]*<`)

func seqClasses(e *XElem) (nonContig, multiAttr, extraBetween, leadText bool) {
	e.walk(func(e *XElem) {
		var names []string
		if len(e.Attrs) >= 2 {
			multiAttr = true
		}
		hasChild := false
		for i, it := range e.Items {
			switch it.Kind {
			case kElem:
				names = append(names, it.El.QName())
				hasChild = true
			case kComment, kProcInst, kDirective:
				for _, later := range e.Items[i+1:] {
					if later.Kind == kElem && hasChild {
						extraBetween = true
					}
				}
			}
		}
		if len(e.Items) > 0 && e.Items[0].Kind == kText && hasChild {
			leadText = true
		}
		for i := range names {
			for j := i + 2; j < len(names); j++ {
				if names[i] == names[j] {
					for k := i + 1; k < j; k++ {
						if names[k] != names[i] {
							nonContig = true
						}
					}
				}
			}
		}
	})
	return
}

func checkC04(c CaseC04, info *Info) *Failure {
	if c.Doc == nil {
		info.Skip = "empty case"
		return nil
	}
	defer resetOptions()
	mxj.XMLEscapeChars(true)
	if c.GoEmpty {
		mxj.XmlGoEmptyElemSyntax()
		info.Class("Go empty-element syntax")
	}
	cut := "\t\r\n "
	if c.Keep {
		mxj.DisableTrimWhiteSpace(true)
		cut = "\t\r\n"
		info.Class("keep-spaces: blanks at the edges of text are content")
	}
	bystanders()
	doc := c.Doc.String()
	want, err := rawTokensTrim([]byte(doc), cut)
	if err != nil {
		info.Skip = "generator produced a document the tokenizer rejects"
		return nil
	}
	m, err := mxj.NewMapXmlSeq([]byte(doc))
	if err != nil {
		return failf("decode-error", "doc %q: %v", doc, err)
	}
	// the reader forms of the sequence decoder yield the same MapSeq (names keep their prefixes, whatever is declared)
	if mr, rerr := mxj.NewMapXmlSeqReader(plainReader{bytes.NewReader([]byte(doc))}); rerr != nil || !reflect.DeepEqual(map[string]interface{}(mr), map[string]interface{}(m)) {
		return failf("reader-form-differs", "doc %q: NewMapXmlSeqReader gives %#v (%v), NewMapXmlSeq %#v", doc, mr, rerr, m)
	}
	if mr, raw, rerr := mxj.NewMapXmlSeqReaderRaw(bytes.NewReader([]byte(doc))); rerr != nil || !reflect.DeepEqual(map[string]interface{}(mr), map[string]interface{}(m)) || !bytes.Contains(raw, []byte(doc)) {
		return failf("reader-form-differs", "doc %q: NewMapXmlSeqReaderRaw gives %#v, raw %q (%v), NewMapXmlSeq %#v", doc, mr, raw, rerr, m)
	}
	var indented []byte
	for _, mode := range []string{"Xml", "XmlIndent", "BeautifyXml", "Formatted"} {
		var x []byte
		switch mode {
		case "Xml":
			x, err = m.Xml()
		case "XmlIndent":
			x, err = m.XmlIndent(c.Prefix, c.Ind)
			indented = x
		case "BeautifyXml":
			x, err = mxj.BeautifyXml([]byte(doc), c.Prefix, c.Ind)
		case "Formatted":
			if c.Keep {
				continue // the formatted decoder removes blank runs by definition
			}
			// NewMapFormattedXmlSeq on the indented document (only where its documented
			// blank-run removal does not touch CDATA/comment content)
			squeezed := fmtRe.ReplaceAll(indented, []byte("><"))
			st, serr := rawTokens(squeezed)
			if ok, _ := toksEqual(st, want); serr != nil || !ok {
				info.Class("formatted-decoder sub-check not applicable")
				continue
			}
			m2, derr := mxj.NewMapFormattedXmlSeq(indented)
			if derr != nil {
				return failf("decode-error", "NewMapFormattedXmlSeq(%q): %v", indented, derr)
			}
			x, err = m2.Xml()
		}
		if err != nil {
			return failf("encode-error", "%s doc %q: %v", mode, doc, err)
		}
		disturb()
		got, terr := rawTokensTrim(x, cut)
		if terr != nil {
			return failf("not-well-formed", "%s doc %q -> %q: %v", mode, doc, x, terr)
		}
		if ok, at := toksEqual(got, want); !ok {
			return failf("token-stream-mismatch", "%s: first difference at token %d\ndoc %q\nout %q\n got  %s\n want %s", mode, at, doc, x, showToks(got, at), showToks(want, at))
		}
	}
	nc, ma, eb, lt := seqClasses(c.Doc)
	info.ClassIf(nc, "non-contiguous repeated sibling")
	info.ClassIf(ma, ">=2 attributes")
	info.ClassIf(eb, "comment/PI/directive between elements")
	info.ClassIf(lt, "leading text with children")
	info.ClassIf(c.Doc.countElems() >= 11, "wide element (10 or more children somewhere)")
	info.NonTrivial(nc || ma || eb || lt)
	return nil
}

func showToks(t []Tok, at int) string {
	lo, hi := at-2, at+3
	if lo < 0 {
		lo = 0
	}
	if hi > len(t) {
		hi = len(t)
	}
	return fmt.Sprintf("[%d:%d]%+v", lo, hi, t[lo:hi])
}

func TestC04(t *testing.T) { runProp(t, "C04", genC04, checkC04) }
