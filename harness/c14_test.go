package props

// C14 - casting changes only leaf types, predictably, and never yields NaN or Inf.

import (
	"bytes"
	"encoding/json"
	"fmt"
	"math"
	"reflect"
	"strconv"
	"strings"
	"testing"

	mxj "github.com/clbanning/mxj/v2"
	x2jw "github.com/clbanning/mxj/v2/x2j-wrapper"
	"pgregory.net/rapid"
)

type CaseC14 struct {
	Opts Opts   `json:"opts"`
	Doc  *XElem `json:"doc"`
}

func init() { register("C14", checkC14) }

func genC14(t *rapid.T) CaseC14 {
	o := defaultOpts()
	o.Cast = true
	o.CastInt = rapid.Bool().Draw(t, "int")
	o.NoCastFloat = rapid.Bool().Draw(t, "nofloat")
	o.NoCastBool = rapid.Bool().Draw(t, "nobool")
	o.CastNanInf = rapid.Bool().Draw(t, "naninf")
	o.ViaToggle = rapid.IntRange(0, 2).Draw(t, "viatoggle") == 0
	if rapid.Bool().Draw(t, "skip") {
		for _, k := range []string{"a", "-b", "#text", "item", "-a", "b"} {
			if rapid.IntRange(0, 2).Draw(t, "skipk") == 0 {
				o.SkipTags = append(o.SkipTags, k)
			}
		}
	}
	o.SeqNum = rapid.IntRange(0, 2).Draw(t, "seqnum") == 0 // wraps simple elements as {#text,_seq}: the structure must not depend on the leaf's cast type
	g := XGen{Opts: o, MixedText: true, Namespaces: rapid.Bool().Draw(t, "ns"), TextGen: genCastText}
	return CaseC14{Opts: o, Doc: g.Elem(t, rapid.IntRange(1, 3).Draw(t, "depth"))}
}

type castStats struct{ changed, kept, leaves int }

// castWalk compares the un-cast and the cast decoding leaf by leaf.
func castWalk(u, c interface{}, key, parentKey string, hasAttrs bool, o Opts, seq bool, path string, st *castStats, info *Info) *Failure {
	switch uu := u.(type) {
	case map[string]interface{}:
		cc, ok := c.(map[string]interface{})
		if !ok || len(cc) != len(uu) {
			return failf("structure-differs", "%s: uncast %#v vs cast %#v", path, u, c)
		}
		attrs := false
		for k := range uu {
			if strings.HasPrefix(k, o.AttrPrefix) && o.AttrPrefix != "" {
				attrs = true
			}
		}
		for k, v := range uu {
			cv, ok := cc[k]
			if !ok {
				return failf("structure-differs", "%s: key %q missing in the cast Map", path, k)
			}
			if f := castWalk(v, cv, k, key, attrs, o, seq, path+"/"+k, st, info); f != nil {
				return f
			}
		}
	case []interface{}:
		cc, ok := c.([]interface{})
		if !ok || len(cc) != len(uu) {
			return failf("structure-differs", "%s: list lengths differ", path)
		}
		for i := range uu {
			if f := castWalk(uu[i], cc[i], key, parentKey, hasAttrs, o, seq, path, st, info); f != nil {
				return f
			}
		}
	case string:
		st.leaves++
		k := key
		if seq {
			k = "" // the skip-tag function is documented not to apply to the sequence decoder
		}
		want := refCast(uu, o, k)
		if f, ok := c.(float64); ok && !o.CastNanInf && (math.IsNaN(f) || math.IsInf(f, 0)) {
			return failf("nan-inf-cast", "%s: %q was cast to %v although CastNanInf is off", path, uu, f)
		}
		if !valEqual(c, want) {
			// text beside children only: which key the skip function is asked about is not documented
			if !seq && key == o.textK() && !hasAttrs && valEqual(c, refCast(uu, o, parentKey)) {
				info.Unspecified("skip-tag key for text beside children only (element key vs text key)")
			} else {
				return failf("cast-mismatch", "%s: %q with %+v: got %#v want %#v", path, uu, o, c, want)
			}
		}
		if _, isStr := c.(string); isStr {
			st.kept++
		} else {
			st.changed++
		}
	default:
		if seq && reflect.DeepEqual(u, c) { // #seq numbers
			return nil
		}
		if !seq && o.SeqNum && key == "_seq" && reflect.DeepEqual(u, c) { // IncludeTagSeqNum numbers
			return nil
		}
		return failf("uncast-leaf-not-string", "%s: decoding without the cast flag gave %#v", path, u)
	}
	return nil
}

func checkC14(c CaseC14, info *Info) *Failure {
	if c.Doc == nil {
		info.Skip = "empty case"
		return nil
	}
	defer resetOptions()
	c.Opts.Cast = true
	c.Opts.Apply()
	doc := []byte(c.Doc.String())
	u, err := mxj.NewMapXml(doc)
	if err != nil {
		return failf("decode-error", "%q: %v", doc, err)
	}
	cm, err := mxj.NewMapXml(doc, true)
	if err != nil {
		return failf("decode-error", "%q (cast): %v", doc, err)
	}
	st := &castStats{}
	if f := castWalk(map[string]interface{}(u), map[string]interface{}(cm), "", "", false, c.Opts, false, "", st, info); f != nil {
		f.Msg = "doc " + string(doc) + "\n" + f.Msg
		return f
	}
	// the un-cast Map is what the conventions prescribe (ties structure to the document)
	uo := c.Opts
	uo.Cast = false
	k, v := refDecode(c.Doc, uo)
	if !valEqual(map[string]interface{}(u), map[string]interface{}{k: v}) {
		return failf("uncast-map-mismatch", "doc %q\n got  %#v\n want %#v", doc, u, map[string]interface{}{k: v})
	}
	// the wrappers that return the cast Map itself
	for name, f := range map[string]func() (map[string]interface{}, error){
		"x2j-wrapper.DocToMap":     func() (map[string]interface{}, error) { return x2jw.DocToMap(string(doc), true) },
		"x2j-wrapper.ByteDocToMap": func() (map[string]interface{}, error) { return x2jw.ByteDocToMap(doc, true) },
		"x2j-wrapper.ToMap":        func() (map[string]interface{}, error) { return x2jw.ToMap(bytes.NewReader(doc), true) },
		"x2j-wrapper.ToMap (no io.ByteReader)": func() (map[string]interface{}, error) {
			return x2jw.ToMap(plainReader{bytes.NewReader(doc)}, true)
		},
		"NewMapXmlReader": func() (map[string]interface{}, error) { return mxj.NewMapXmlReader(bytes.NewReader(doc), true) },
		"NewMapXmlReader (no io.ByteReader)": func() (map[string]interface{}, error) {
			return mxj.NewMapXmlReader(plainReader{bytes.NewReader(doc)}, true)
		},
		"NewMapXmlReaderRaw": func() (map[string]interface{}, error) {
			m, _, err := mxj.NewMapXmlReaderRaw(plainReader{bytes.NewReader(doc)}, true)
			return m, err
		},
	} {
		wm, werr := f()
		if werr != nil || !valEqual(wm, map[string]interface{}(cm)) {
			return failf("wrapper-mismatch", "doc %q opts %+v: %s(recast) = %#v (%v), NewMapXml(doc,true) = %#v", doc, c.Opts, name, wm, werr, cm)
		}
	}
	if !c.Opts.CastNanInf {
		jb, jerr := cm.Json()
		if jerr != nil {
			return failf("json-fails-after-cast", "doc %q: Json() of the cast Map failed: %v", doc, jerr)
		}
		// ... and the JSON says what the cast Map says: a number where the leaf is a number (the very value), a boolean
		// where it is a boolean, the identical string otherwise
		var back interface{}
		jd := json.NewDecoder(bytes.NewReader(jb))
		jd.UseNumber()
		if derr := jd.Decode(&back); derr != nil {
			return failf("json-fails-after-cast", "doc %q: Json() of the cast Map is no JSON: %v: %s", doc, derr, jb)
		}
		if why := jsonAgrees(map[string]interface{}(cm), back, ""); why != "" {
			return failf("json-disagrees-with-cast-map", "doc %q opts %+v\n cast Map %#v\n Json()   %s\n %s", doc, c.Opts, cm, jb, why)
		}
		js, werr := x2jw.DocToJson(string(doc), true)
		if werr != nil || js != string(jb) {
			return failf("wrapper-mismatch", "x2j-wrapper.DocToJson(%q,true) = %q,%v want %q", doc, js, werr, jb)
		}
	}
	us, err := mxj.NewMapXmlSeq(doc)
	if err != nil {
		return failf("decode-error", "NewMapXmlSeq(%q): %v", doc, err)
	}
	cs, err := mxj.NewMapXmlSeq(doc, true)
	if err != nil {
		return failf("decode-error", "NewMapXmlSeq(%q,true): %v", doc, err)
	}
	sst := &castStats{}
	if f := castWalk(map[string]interface{}(us), map[string]interface{}(cs), "", "", false, c.Opts, true, "seq", sst, info); f != nil {
		f.Msg = "doc " + string(doc) + "\n" + f.Msg
		return f
	}
	nonDefault := c.Opts.CastInt || c.Opts.NoCastFloat || c.Opts.NoCastBool || c.Opts.CastNanInf || len(c.Opts.SkipTags) > 0
	info.ClassIf(st.changed > 0, "a leaf changed type")
	info.ClassIf(st.kept > 0, "a leaf stayed a string")
	info.ClassIf(nonDefault, "non-default cast switch")
	info.ClassIf(len(c.Opts.SkipTags) > 0, "skip-tag function set")
	info.ClassIf(c.Opts.SeqNum, "IncludeTagSeqNum on")
	info.NonTrivial(st.changed > 0 && st.kept > 0 && nonDefault)
	return nil
}

func TestC14(t *testing.T) { runProp(t, "C14", genC14, checkC14) }

// jsonAgrees compares a cast Map with the JSON value its encoding decodes to (numbers kept as json.Number).
func jsonAgrees(cv, jv interface{}, at string) string {
	switch x := cv.(type) {
	case map[string]interface{}:
		y, ok := jv.(map[string]interface{})
		if !ok || len(x) != len(y) {
			return fmt.Sprintf("at %q: an object of %d members became %T", at, len(x), jv)
		}
		for k, v := range x {
			w, ok := y[k]
			if !ok {
				return fmt.Sprintf("at %q: member %q is missing", at, k)
			}
			if why := jsonAgrees(v, w, at+"/"+k); why != "" {
				return why
			}
		}
	case []interface{}:
		y, ok := jv.([]interface{})
		if !ok || len(x) != len(y) {
			return fmt.Sprintf("at %q: a list of %d became %T", at, len(x), jv)
		}
		for i := range x {
			if why := jsonAgrees(x[i], y[i], fmt.Sprintf("%s/%d", at, i)); why != "" {
				return why
			}
		}
	case string:
		if y, ok := jv.(string); !ok || y != x {
			return fmt.Sprintf("at %q: the string %q became %#v", at, x, jv)
		}
	case bool:
		if y, ok := jv.(bool); !ok || y != x {
			return fmt.Sprintf("at %q: the boolean %v became %#v", at, x, jv)
		}
	case int64:
		n, ok := jv.(json.Number)
		if v, err := strconv.ParseInt(string(n), 10, 64); !ok || err != nil || v != x {
			return fmt.Sprintf("at %q: the int64 %d became %#v", at, x, jv)
		}
	case int: // the sequence numbers of IncludeTagSeqNum
		n, ok := jv.(json.Number)
		if v, err := strconv.ParseInt(string(n), 10, 64); !ok || err != nil || v != int64(x) {
			return fmt.Sprintf("at %q: the int %d became %#v", at, x, jv)
		}
	case uint64:
		n, ok := jv.(json.Number)
		if v, err := strconv.ParseUint(string(n), 10, 64); !ok || err != nil || v != x {
			return fmt.Sprintf("at %q: the uint64 %d became %#v", at, x, jv)
		}
	case float64:
		n, ok := jv.(json.Number)
		if v, err := strconv.ParseFloat(string(n), 64); !ok || err != nil || v != x {
			return fmt.Sprintf("at %q: the float64 %v became %#v", at, x, jv)
		}
	case nil:
		if jv != nil {
			return fmt.Sprintf("at %q: null became %#v", at, jv)
		}
	default:
		return fmt.Sprintf("at %q: a leaf of type %T in a cast Map", at, cv)
	}
	return ""
}
