package props

// C03 - encoding any JSON-shaped Map or value as XML preserves all of its data.

import (
	"bytes"
	"encoding/json"
	"math"
	"strconv"
	"strings"
	"testing"

	mxj "github.com/clbanning/mxj/v2"
	"github.com/clbanning/mxj/v2/j2x"
	"pgregory.net/rapid"
)

type CaseC03 struct {
	Mode      string      `json:"mode"` // map-xml | map-indent | any | any-indent | j2x
	Value     interface{} `json:"value"`
	Tags      []string    `json:"tags,omitempty"` // AnyXml: root tag, element tag
	Prefix    string      `json:"prefix,omitempty"`
	Ind       string      `json:"ind,omitempty"`
	GoEmpty   bool        `json:"go_empty,omitempty"`
	PreFail   bool        `json:"pre_fail,omitempty"`   // failing encoder calls precede the call under test
	Typed     []string    `json:"typed,omitempty"`      // Go types given to the numeric scalars, in walk order, cyclically ("" keeps float64)
	KeyPrefix string      `json:"key_prefix,omitempty"` // "_": SetGlobalKeyMapPrefix("_") is in force; the text key is _text and keys like _seq, _comment are ordinary elements
	Alias     *AliasSpec  `json:"alias,omitempty"`      // one container object gets a second parent in the value (a Map built in Go may share sub-structure)
	Detour    int         `json:"detour,omitempty"`     // options were changed and put back to their defaults through the documented calls before this call (see optionDetour)
}

func init() { register("C03", checkC03) }

func specialKey(k string) bool { return k == refTextKey || (strings.HasPrefix(k, "-") && len(k) > 1) }

func genC03(t *rapid.T) CaseC03 {
	// keys include the words the encoders use themselves (default root and element tags, explicit root tags)
	g := VGen{Keys: append(append([]string{}, xmlKeyNames...), "doc", "element", "top", "myroot"), Attrs: true, Nulls: true}
	c := CaseC03{Mode: rapid.SampledFrom([]string{"map-xml", "map-indent", "any", "any-indent", "j2x", "map-xml-root", "map-indent-root"}).Draw(t, "mode")}
	c.GoEmpty = rapid.IntRange(0, 3).Draw(t, "goempty") == 0
	c.PreFail = rapid.IntRange(0, 3).Draw(t, "prefail") == 0
	if rapid.Bool().Draw(t, "detour") {
		c.Detour = rapid.IntRange(1, 7).Draw(t, "detourkind")
	}
	blanks := []string{"", " ", "  ", "\t"}
	c.Prefix = rapid.SampledFrom(blanks).Draw(t, "prefix")
	c.Ind = rapid.SampledFrom(blanks).Draw(t, "ind")
	switch c.Mode {
	case "map-xml-root", "map-indent-root":
		// an explicit root tag always wraps the whole Map, whatever its keys are
		c.Value = g.Map(t, 3)
		c.Tags = []string{rapid.SampledFrom([]string{"doc", "top", "a", "myroot"}).Draw(t, "roottag")}
		if rapid.IntRange(0, 2).Draw(t, "samekey") == 0 {
			c.Value = map[string]interface{}{c.Tags[0]: g.Value(t, 2)}
		}
	case "map-xml", "map-indent", "j2x":
		m := g.Map(t, 3)
		if len(m) == 1 {
			for k, v := range m {
				_, isList := v.([]interface{})
				if isList || specialKey(k) { // no element name for such a root
					m["zz"] = g.Scalar(t)
				}
			}
		}
		c.Value = m
	default:
		v := g.Value(t, 3)
		if l, ok := v.([]interface{}); ok {
			for i, mem := range l {
				if mm, ok := mem.(map[string]interface{}); ok && len(mm) == 1 {
					for k := range mm {
						if specialKey(k) {
							l[i] = g.Scalar(t)
						}
					}
				}
			}
		}
		c.Value = v
		switch rapid.IntRange(0, 3).Draw(t, "tags") {
		case 1:
			c.Tags = []string{"myroot"}
		case 2:
			c.Tags = []string{"myroot", "myelem"}
		}
	}
	if rapid.IntRange(0, 5).Draw(t, "keyprefix") == 0 {
		c.KeyPrefix = "_"
		c.Value = underscoreKeys(t, c.Value)
	}
	if rapid.IntRange(0, 7).Draw(t, "alias") == 0 {
		c.Alias = &AliasSpec{Src: rapid.IntRange(0, 30).Draw(t, "asrc"), Dst: rapid.IntRange(0, 30).Draw(t, "adst"), Key: rapid.SampledFrom([]string{"al", "a", "b"}).Draw(t, "akey")}
	}
	if c.Mode != "j2x" && rapid.IntRange(0, 2).Draw(t, "typed") == 0 {
		// a Map built in Go holds numbers of any numeric type, not only the float64 a JSON decoder produces
		n := rapid.IntRange(1, 4).Draw(t, "ntyped")
		for i := 0; i < n; i++ {
			c.Typed = append(c.Typed, rapid.SampledFrom(goNumTypes).Draw(t, "gotype"))
		}
	}
	return c
}

// the numeric types the encoder documents: float64, int, int32, int64, float32 (and json.Number from a UseNumber decode)
var goNumTypes = []string{"float32", "float32", "int", "int64", "int32", "json.Number", ""}

// materialize gives the float64 scalars of v the Go types listed in typed (walk order: sorted keys, list order).
func materialize(v interface{}, typed []string, n *int) interface{} {
	if len(typed) == 0 {
		return v
	}
	switch x := v.(type) {
	case map[string]interface{}:
		for _, k := range sortedKeys(x) {
			x[k] = materialize(x[k], typed, n)
		}
		return x
	case []interface{}:
		for i := range x {
			x[i] = materialize(x[i], typed, n)
		}
		return x
	case float64:
		t := typed[*n%len(typed)]
		*n++
		integral := x == math.Trunc(x) && math.Abs(x) < 1e15
		switch {
		case t == "float32":
			if f := float32(x); !math.IsInf(float64(f), 0) && !math.IsNaN(float64(f)) {
				return f
			}
		case t == "json.Number":
			return json.Number(strconv.FormatFloat(x, 'g', -1, 64))
		case t == "int" && integral:
			return int(x)
		case t == "int64" && integral:
			return int64(x)
		case t == "int32" && integral && math.Abs(x) < 1<<31:
			return int32(x)
		case t == "int8" && integral && math.Abs(x) < 128:
			return int8(x)
		case t == "uint" && integral && x >= 0:
			return uint(x)
		case t == "uint8" && integral && x >= 0 && x < 256:
			return uint8(x)
		case t == "uint64" && integral && x >= 0:
			return uint64(x)
		}
	}
	return v
}

// underscoreKeys prepares a value for the "_" key prefix: the text key becomes _text, and some maps get entries
// whose keys are spelled like the keys the SEQUENCE codec reserves under that prefix - ordinary elements for Map.Xml.
func underscoreKeys(t *rapid.T, v interface{}) interface{} {
	switch x := v.(type) {
	case map[string]interface{}:
		out := map[string]interface{}{}
		for _, k := range sortedKeys(x) {
			nk := k
			if k == "#text" {
				nk = "_text"
			}
			out[nk] = underscoreKeys(t, x[k])
		}
		if rapid.IntRange(0, 2).Draw(t, "reservedkey") == 0 {
			k := rapid.SampledFrom([]string{"_seq", "_comment", "_attr", "_directive", "_procinst", "_target", "_inst"}).Draw(t, "rk")
			if rapid.Bool().Draw(t, "rkmap") {
				out[k] = map[string]interface{}{"in": "x", "n": float64(1)}
			} else {
				out[k] = rapid.SampledFrom([]interface{}{"v", float64(7), true, nil}).Draw(t, "rkv")
			}
		}
		return out
	case []interface{}:
		out := make([]interface{}, len(x))
		for i := range x {
			out[i] = underscoreKeys(t, x[i])
		}
		return out
	}
	return v
}

// failingEncodes calls the encoders with values they must reject; whatever they do, they must not
// influence a later call (encoding is a function of the Map alone).
func failingEncodes() {
	bad := mxj.Map{"rec": map[string]interface{}{"name": "x", "tag": map[string]interface{}{"-id": nil}, "z": "tail"}}
	bad.Xml()
	bad.XmlIndent("", " ")
	bad.XmlWriter(&bytes.Buffer{})
	mxj.AnyXml(map[string]interface{}{"a": map[string]interface{}{"-b": []interface{}{1}}})
	mxj.AnyXmlIndent([]interface{}{map[string]interface{}{"a": map[string]interface{}{"-b": nil}}}, "", " ")
	(mxj.Map{"f": math.NaN(), "g": "x"}).Json()
	(mxj.Map{"f": math.Inf(1)}).JsonIndent("", " ")
	if refTextKey == "#text" { // a hand-built MapSeq is written for the default key prefix only
		(mxj.MapSeq{"r": map[string]interface{}{"#attr": map[string]interface{}{"a": map[string]interface{}{"#text": nil, "#seq": 0}}, "e": map[string]interface{}{"#seq": "x"}}}).Xml()
	}
}

func nestedClasses(v interface{}, out map[string]bool) {
	switch x := v.(type) {
	case map[string]interface{}:
		attrs, children := 0, 0
		for k, vv := range x {
			if specialKey(k) {
				attrs++
			} else {
				children++
			}
			nestedClasses(vv, out)
		}
		if attrs > 0 && children > 0 {
			out["attributes mixed with children"] = true
		}
		if len(x) == 0 {
			out["empty map"] = true
		}
	case []interface{}:
		if len(x) >= 2 {
			out["list with >=2 members"] = true
		}
		if len(x) == 0 {
			out["empty list"] = true
		}
		for _, vv := range x {
			if _, ok := vv.([]interface{}); ok {
				out["nested list"] = true
			}
			if vv == nil {
				out["null inside a list"] = true
			}
			nestedClasses(vv, out)
		}
	}
}

func checkC03(c CaseC03, info *Info) *Failure {
	defer resetOptions()
	optionDetour(c.Detour)
	info.ClassIf(c.Detour%8 != 0, "options changed and restored to their defaults before the call")
	mxj.XMLEscapeChars(true)
	decOpts := defaultOpts()
	if c.KeyPrefix == "_" {
		mxj.SetGlobalKeyMapPrefix("_")
		refTextKey = "_text"
		defer func() { refTextKey = "#text" }()
		decOpts.KeyPrefix = "_"
		info.Class("global key prefix _ with keys spelled like reserved ones")
	}
	if c.GoEmpty {
		mxj.XmlGoEmptyElemSyntax()
	}
	bystanders()
	if c.PreFail {
		failingEncodes()
		info.Class("after failing encoder calls")
	}
	var x []byte
	var err error
	var root *XElem
	var n1, n2 int
	val := materialize(deepCopy(c.Value), c.Typed, &n1)
	orig := materialize(deepCopy(c.Value), c.Typed, &n2)
	info.ClassIf(len(c.Typed) > 0 && n1 > 0, "numbers of Go types other than float64")
	if vm, ok := val.(map[string]interface{}); ok && c.Alias != nil {
		om := orig.(map[string]interface{})
		if applyAlias(vm, *c.Alias, true) && applyAlias(om, *c.Alias, false) {
			info.Class("shared sub-structure in the value")
		} else {
			n1, n2 = 0, 0
			val = materialize(deepCopy(c.Value), c.Typed, &n1)
			orig = materialize(deepCopy(c.Value), c.Typed, &n2)
		}
	}
	switch c.Mode {
	case "map-xml-root", "map-indent-root":
		m, ok := val.(map[string]interface{})
		if !ok || len(c.Tags) != 1 {
			info.Skip = "value is not a map"
			return nil
		}
		root = refElems(c.Tags[0], m)[0]
		if c.Mode == "map-xml-root" {
			x, err = mxj.Map(m).Xml(c.Tags[0])
		} else {
			x, err = mxj.Map(m).XmlIndent(c.Prefix, c.Ind, c.Tags[0])
		}
	case "map-xml", "map-indent", "j2x":
		m, ok := val.(map[string]interface{})
		if !ok {
			info.Skip = "value is not a map"
			return nil
		}
		single := false
		if len(m) == 1 {
			for k, v := range m {
				if _, isList := v.([]interface{}); isList || specialKey(k) {
					info.Skip = "single-key root without an element name (outside the domain)"
					return nil
				}
				single = true
				root = refElems(k, v)[0]
			}
		}
		if !single {
			root = refElems("doc", m)[0]
		}
		switch c.Mode {
		case "map-xml":
			x, err = mxj.Map(m).Xml()
		case "map-indent":
			x, err = mxj.Map(m).XmlIndent(c.Prefix, c.Ind)
		default:
			jb, jerr := mxj.Map(m).Json()
			if jerr != nil {
				return failf("error", "Json() failed: %v", jerr)
			}
			x, err = j2x.JsonToXml(jb)
		}
	default:
		rt, et := "doc", "element"
		if len(c.Tags) >= 1 {
			rt = c.Tags[0]
		}
		if len(c.Tags) == 2 {
			et = c.Tags[1]
		}
		if c.Mode == "any" {
			x, err = mxj.AnyXml(val, c.Tags...)
		} else {
			x, err = mxj.AnyXmlIndent(val, c.Prefix, c.Ind, c.Tags...)
		}
		switch vv := val.(type) {
		case []interface{}:
			root = &XElem{Local: rt}
			for _, mem := range vv {
				if mm, ok := mem.(map[string]interface{}); ok && len(mm) == 1 {
					for k, v := range mm {
						if specialKey(k) {
							info.Skip = "special single key in root list (outside the domain)"
							return nil
						}
						for _, ce := range refElems(k, v) {
							root.Items = append(root.Items, XItem{Kind: kElem, El: ce})
						}
					}
				} else {
					for _, ce := range refElems(et, mem) {
						root.Items = append(root.Items, XItem{Kind: kElem, El: ce})
					}
				}
			}
		default:
			root = refElems(rt, val)[0]
		}
	}
	if err != nil {
		return failf("encode-error", "mode %s value %s: %v", c.Mode, canon(c.Value), err)
	}
	disturb()
	if werr := wellFormedSingleRoot(x); werr != nil {
		return failf("not-well-formed", "mode %s value %s -> %q: %v", c.Mode, canon(c.Value), x, werr)
	}
	if !valEqual(val, orig) {
		return failf("receiver-modified", "mode %s value %s changed to %s", c.Mode, canon(c.Value), canon(val))
	}
	resetOptions()
	decOpts.apply()
	got, derr := mxj.NewMapXml(x)
	if derr != nil {
		return failf("decode-error", "mode %s xml %q: %v", c.Mode, x, derr)
	}
	k, v := refDecode(root, decOpts)
	want := map[string]interface{}{k: v}
	if !valEqual(map[string]interface{}(got), want) {
		return failf("data-mismatch", "mode %s value %s\nxml %q\n got  %#v\n want %#v", c.Mode, canon(c.Value), x, got, want)
	}
	cl := map[string]bool{}
	nestedClasses(c.Value, cl)
	for k := range cl {
		info.Class(k)
	}
	info.Class("mode:" + c.Mode)
	info.NonTrivial(cl["list with >=2 members"] || cl["nested list"] || cl["empty list"] || cl["null inside a list"] || cl["attributes mixed with children"])
	return nil
}

func TestC03(t *testing.T) { runProp(t, "C03", genC03, checkC03) }
