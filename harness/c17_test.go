package props

// C17 - queries and encoders never modify their receiver and may run concurrently.
// The check binary is built with -race (GORACE=halt_on_error=1: a reported race ends the
// process and the driver reports the in-flight case).

import (
	"bytes"
	"fmt"
	"math"
	"reflect"
	"runtime"
	"sort"
	"strings"
	"sync"
	"sync/atomic"
	"testing"

	mxj "github.com/clbanning/mxj/v2"
	"pgregory.net/rapid"
)

type OpC17 struct {
	Kind string `json:"kind"`
	Arg  string `json:"arg,omitempty"`
}

type CaseC17 struct {
	Doc        *XElem                 `json:"doc"`
	Value      map[string]interface{} `json:"value,omitempty"` // shared Map (else the decoded document)
	Plans      [][]OpC17              `json:"plans"`
	Procs      int                    `json:"procs"`
	Yield      int                    `json:"yield"`                  // Gosched every Yield-th operation
	SeqViaJSON bool                   `json:"seq_via_json,omitempty"` // the shared MapSeq went through Copy (JSON): float64 sequence numbers
	NaNList    bool                   `json:"nan_list,omitempty"`     // the shared Map holds NaN and Inf inside a list (what a cast decode with CastNanInf yields): the JSON encoders and Copy fail on it - and must still leave it alone
	Reapply    bool                   `json:"reapply_opts,omitempty"` // every option setter is called (with the value in force) right before the goroutines start: whatever the library derives from the options is derived concurrently
	Alias      *AliasSpec             `json:"alias,omitempty"`        // one container object gets a second parent in the shared Map
	DeepChain  int                    `json:"deep_chain,omitempty"`   // the shared Map is a chain of this many nested single-entry maps (built in the check, not stored)
	OptBits    uint32                 `json:"opt_bits,omitempty"`     // package options set ONCE, before anything runs (see applyUnrelatedOptions): escaping, cast, prefixes ... - "options left alone" does not mean "options at their defaults"
}

func init() { register("C17", checkC17) }

var c17Kinds = []string{"Xml", "XmlIndent", "Json", "JsonIndent", "ValuesForPath", "ValuesForPathSub", "ValuesForKey", "LeafNodes", "LeafPaths", "LeafValues",
	"PathsForKey", "PathForKeyShortest", "Exists", "Elements", "Attributes", "Root", "Copy", "StringIndent", "Gob", "NewMap", "XmlWriter", "JsonWriter",
	"SeqXml", "SeqXmlIndent", "SeqStringIndent", "DecodeXml", "DecodeSeq", "DecodeJson", "EncodePrivate", "AnyXml", "ValuesForKeySub", "ExistsSub", "StringIndentNoTypeInfo", "SeqStringIndentNoTypeInfo", "Struct"}

// freshSpec returns a sub-key argument that no earlier call of this process has used and whose outcome does not
// depend on the number in it (no generated Map has a key or value "zz<n>"): request-dependent sub-key values are
// what a server passes, and anything the library remembers per distinct argument would be written concurrently.
var freshCounter int64

func freshSpec(neg bool) string {
	n := atomic.AddInt64(&freshCounter, 1)
	if neg {
		return fmt.Sprintf("!zz%d:*", n) // holds wherever the key is absent: everywhere
	}
	return fmt.Sprintf("a:zz%d", n) // holds nowhere
}

var c17SharedEncoders = map[string]bool{"Xml": true, "XmlIndent": true, "Json": true, "JsonIndent": true, "XmlWriter": true, "JsonWriter": true, "SeqXml": true, "SeqXmlIndent": true, "Gob": true, "Copy": true, "StringIndent": true}

func genC17(t *rapid.T) CaseC17 {
	g := XGen{Opts: defaultOpts(), Extras: true, Namespaces: true}
	c := CaseC17{Doc: g.Elem(t, 3)}
	if rapid.IntRange(0, 49).Draw(t, "deep") == 0 {
		// many goroutines walking one very deep Map at the same time: whatever bounds a single walk must not be shared
		c.DeepChain = rapid.IntRange(1000, 1200).Draw(t, "depth")
		ng := rapid.IntRange(12, 14).Draw(t, "goroutines")
		c.Plans = make([][]OpC17, ng)
		for gi := range c.Plans {
			n := rapid.IntRange(3, 5).Draw(t, "nops")
			for i := 0; i < n; i++ {
				o := OpC17{Kind: rapid.SampledFrom([]string{"LeafNodes", "LeafPaths", "LeafValues", "LeafNodes", "ValuesForKey", "PathsForKey"}).Draw(t, "kind")}
				if o.Kind == "ValuesForKey" || o.Kind == "PathsForKey" {
					o.Arg = "leaf"
				}
				c.Plans[gi] = append(c.Plans[gi], o)
			}
		}
		c.Procs, c.Yield = 16, 1
		return c
	}
	var keys []string
	var shape *shape
	lil := false
	if rapid.Bool().Draw(t, "valuemap") {
		lil = rapid.IntRange(0, 2).Draw(t, "lil") == 0
		shape = genRootShape(t, lil)
		c.Value = instantiate(t, shape).(map[string]interface{})
		keys = shapeKeys
	} else {
		keys = xmlNames
	}
	ng := rapid.IntRange(2, 8).Draw(t, "goroutines")
	c.Plans = make([][]OpC17, ng)
	for gi := range c.Plans {
		n := rapid.IntRange(5, 30).Draw(t, "nops")
		for i := 0; i < n; i++ {
			o := OpC17{Kind: rapid.SampledFrom(c17Kinds).Draw(t, "kind")}
			switch o.Kind {
			case "ValuesForPath", "ValuesForPathSub", "Exists", "ExistsSub", "Elements", "Attributes", "NewMap":
				if shape != nil {
					o.Arg = pathString(genShapePath(t, shape, !lil && o.Kind != "NewMap" && rapid.Bool().Draw(t, "indexed")))
				} else {
					n := rapid.IntRange(1, 3).Draw(t, "plen")
					var segs []string
					for j := 0; j < n; j++ {
						segs = append(segs, rapid.SampledFrom(append([]string{"*"}, keys...)).Draw(t, "seg"))
					}
					if rapid.Bool().Draw(t, "rooted") {
						segs[0] = c.Doc.Local
					}
					o.Arg = strings.Join(segs, ".")
				}
			case "ValuesForKey", "ValuesForKeySub", "PathsForKey", "PathForKeyShortest":
				o.Arg = rapid.SampledFrom(keys).Draw(t, "key")
			}
			c.Plans[gi] = append(c.Plans[gi], o)
		}
	}
	if rapid.IntRange(0, 3).Draw(t, "sameplan") == 2 {
		// every goroutine runs the SAME operations in the same order: whatever one kind of call shares between its
		// invocations (a scratch buffer, a memo) is then used by all of them at the same time
		for gi := 1; gi < len(c.Plans); gi++ {
			c.Plans[gi] = append([]OpC17(nil), c.Plans[0]...)
		}
	}
	c.Procs = rapid.SampledFrom([]int{2, 4, 16}).Draw(t, "procs")
	c.Yield = rapid.IntRange(1, 4).Draw(t, "yield")
	c.SeqViaJSON = rapid.Bool().Draw(t, "seqviajson")
	c.Reapply = rapid.Bool().Draw(t, "reapply")
	c.OptBits = genUnrelated(t) &^ (1 << 15) // not the skip-every-tag function: nothing would be left to work on
	c.NaNList = c.Value != nil && rapid.IntRange(0, 7).Draw(t, "nanlist") == 3
	if c.Value != nil && rapid.IntRange(0, 4).Draw(t, "alias") == 0 {
		c.Alias = &AliasSpec{Src: rapid.IntRange(0, 30).Draw(t, "asrc"), Dst: rapid.IntRange(0, 30).Draw(t, "adst"), Key: rapid.SampledFrom(shapeKeys).Draw(t, "akey")}
	}
	if c.Value != nil && rapid.IntRange(0, 3).Draw(t, "nestedlists") == 0 {
		c.Value["nl"] = []interface{}{[]interface{}{"a", "b", map[string]interface{}{"k": "v"}}, []interface{}{[]interface{}{"c"}}, "s"}
	}
	if c.Value != nil && rapid.IntRange(0, 5).Draw(t, "wrapdeep") == 0 {
		// the shared Map lies 3 to 70 levels deep: every walker, printer and encoder recurses that far in every goroutine
		var pre []Step
		c.Value, pre = wrapDeepPrefix(t, c.Value)
		pp := pathString(pre)
		for gi := range c.Plans {
			for i := range c.Plans[gi] {
				switch o := &c.Plans[gi][i]; o.Kind {
				case "ValuesForPath", "ValuesForPathSub", "Exists", "ExistsSub", "Elements", "Attributes", "NewMap":
					if o.Arg != "" {
						o.Arg = pp + "." + o.Arg
					}
				}
			}
		}
	}
	return c
}

func sortedStrs(vs []interface{}) []string {
	out := make([]string, len(vs))
	for i, v := range vs {
		out[i] = fmt.Sprintf("%#v", v)
	}
	sort.Strings(out)
	return out
}

func runOpC17(o OpC17, shared mxj.Map, sharedSeq mxj.MapSeq, doc []byte, jdoc []byte) string {
	switch o.Kind {
	case "Xml":
		x, err := shared.Xml()
		return fmt.Sprintf("%s|%v", x, err)
	case "XmlIndent":
		x, err := shared.XmlIndent("", " ")
		return fmt.Sprintf("%s|%v", x, err)
	case "Json":
		x, err := shared.Json()
		return fmt.Sprintf("%s|%v", x, err)
	case "JsonIndent":
		x, err := shared.JsonIndent("", " ", true)
		return fmt.Sprintf("%s|%v", x, err)
	case "ValuesForPath":
		v, err := shared.ValuesForPath(o.Arg)
		return fmt.Sprintf("%v|%v", sortedStrs(v), err)
	case "ValuesForPathSub":
		v, err := shared.ValuesForPath(o.Arg, "a:*")
		v2, err2 := shared.ValuesForPath(o.Arg, freshSpec(true))
		v3, err3 := shared.ValuesForPath(o.Arg, "a:*", freshSpec(false))
		return fmt.Sprintf("%v|%v|%v|%v|%v|%v", sortedStrs(v), err, sortedStrs(v2), err2, sortedStrs(v3), err3)
	case "ValuesForKeySub":
		v, err := shared.ValuesForKey(o.Arg, freshSpec(true))
		v2, err2 := shared.ValuesForKey(o.Arg, freshSpec(false))
		return fmt.Sprintf("%v|%v|%v|%v", sortedStrs(v), err, sortedStrs(v2), err2)
	case "ExistsSub":
		b, err := shared.Exists(o.Arg, freshSpec(true))
		b2, err2 := shared.Exists(o.Arg, freshSpec(false))
		return fmt.Sprintf("%v|%v|%v|%v", b, err, b2, err2)
	case "ValuesForKey":
		v, err := shared.ValuesForKey(o.Arg)
		return fmt.Sprintf("%v|%v", sortedStrs(v), err)
	case "LeafNodes":
		var s []string
		for _, l := range shared.LeafNodes() {
			s = append(s, fmt.Sprintf("%s=%#v", l.Path, l.Value))
		}
		sort.Strings(s)
		return strings.Join(s, ";")
	case "LeafPaths":
		p := shared.LeafPaths(true)
		sort.Strings(p)
		return strings.Join(p, ";")
	case "LeafValues":
		return fmt.Sprint(sortedStrs(shared.LeafValues()))
	case "PathsForKey":
		p := shared.PathsForKey(o.Arg)
		sort.Strings(p)
		return strings.Join(p, ";")
	case "PathForKeyShortest":
		return fmt.Sprint(len(strings.Split(shared.PathForKeyShortest(o.Arg), ".")))
	case "Exists":
		b, err := shared.Exists(o.Arg)
		return fmt.Sprintf("%v|%v", b, err)
	case "Elements":
		e, err := shared.Elements(o.Arg)
		if strings.Contains(o.Arg, "*") {
			return "unordered first value" // ValueForPath through a wildcard may pick any member
		}
		return fmt.Sprintf("%v|%v", e, err)
	case "Attributes":
		e, err := shared.Attributes(o.Arg)
		if strings.Contains(o.Arg, "*") {
			return "unordered first value"
		}
		return fmt.Sprintf("%v|%v", e, err)
	case "Root":
		r, err := shared.Root()
		if len(shared) != 1 {
			r = ""
		}
		return fmt.Sprintf("%s|%v", r, err != nil)
	case "Copy":
		c, err := shared.Copy()
		return fmt.Sprintf("%v|%v", canon(map[string]interface{}(c)) == canon(map[string]interface{}(shared)), err)
	case "StringIndent":
		return shared.StringIndent()
	case "StringIndentNoTypeInfo":
		return shared.StringIndentNoTypeInfo()
	case "SeqStringIndentNoTypeInfo":
		return sharedSeq.StringIndentNoTypeInfo()
	case "Struct":
		var into struct {
			A interface{} `json:"a"`
			B interface{} `json:"b"`
			K interface{} `json:"k"`
		}
		err := shared.Struct(&into)
		return fmt.Sprintf("%v|%v", canon(map[string]interface{}{"a": into.A, "b": into.B, "k": into.K}), err != nil)
	case "Gob":
		g, err := shared.Gob()
		back, err2 := mxj.NewMapGob(g)
		return fmt.Sprintf("%v|%v|%v", reflect.DeepEqual(map[string]interface{}(back), map[string]interface{}(shared)), err, err2)
	case "NewMap":
		if strings.Contains(o.Arg, "*") {
			n, err := shared.NewMap(o.Arg + ":n1")
			return fmt.Sprintf("%d|%v", len(n), err)
		}
		n, err := shared.NewMap(o.Arg + ":n1.n2")
		return fmt.Sprintf("%s|%v", canon(map[string]interface{}(n)), err)
	case "XmlWriter":
		var b bytes.Buffer
		err := shared.XmlIndentWriter(&b, " ", " ")
		return fmt.Sprintf("%s|%v", b.Bytes(), err)
	case "JsonWriter":
		var b bytes.Buffer
		raw, err := shared.JsonWriterRaw(&b)
		return fmt.Sprintf("%s|%s|%v", b.Bytes(), raw, err)
	case "SeqXml":
		x, err := sharedSeq.Xml()
		return fmt.Sprintf("%s|%v", x, err)
	case "SeqXmlIndent":
		x, err := sharedSeq.XmlIndent("", "  ")
		return fmt.Sprintf("%s|%v", x, err)
	case "SeqStringIndent":
		return sharedSeq.StringIndent()
	case "DecodeXml":
		m, err := mxj.NewMapXml(doc, true)
		return fmt.Sprintf("%s|%v", m.StringIndent(), err)
	case "DecodeSeq":
		m, err := mxj.NewMapXmlSeq(doc)
		return fmt.Sprintf("%s|%v", m.StringIndent(), err)
	case "DecodeJson":
		m, err := mxj.NewMapJsonReader(bytes.NewReader(jdoc))
		return fmt.Sprintf("%s|%v", m.StringIndent(), err)
	case "EncodePrivate":
		m, _ := mxj.NewMapXml(doc)
		x, err := m.XmlIndent("", " ")
		j, _ := m.Json(true)
		return fmt.Sprintf("%s|%s|%v", x, j, err)
	case "AnyXml":
		x, err := mxj.AnyXmlIndent([]interface{}{"a", map[string]interface{}{"k": o.Arg}, 1.5, nil}, "", " ")
		return fmt.Sprintf("%s|%v", x, err)
	}
	return ""
}

// scribble changes every container of v in place.
func scribble(v interface{}) {
	switch x := v.(type) {
	case map[string]interface{}:
		for _, k := range sortedKeys(x) {
			scribble(x[k])
			if _, isContainer := x[k].(map[string]interface{}); !isContainer {
				if _, isList := x[k].([]interface{}); !isList {
					x[k] = "scribbled"
				}
			}
		}
		x["__scribble"] = true
	case []interface{}:
		for i := range x {
			scribble(x[i])
			switch x[i].(type) {
			case map[string]interface{}, []interface{}:
			default:
				x[i] = "scribbled"
			}
		}
	}
}

func checkC17(c CaseC17, info *Info) *Failure {
	if c.Doc == nil || len(c.Plans) == 0 {
		info.Skip = "empty case"
		return nil
	}
	defer resetOptions()
	applyUnrelatedOptions(c.OptBits)
	info.ClassIf(c.OptBits != 0, "non-default package options set once up front")
	info.ClassIf(c.OptBits&(1<<5|1<<6) != 0, "escaping of XML special characters switched on up front")
	doc := []byte(c.Doc.String())
	var shared mxj.Map
	if c.DeepChain > 0 {
		var v interface{} = map[string]interface{}{"leaf": "x", "n": 1.0}
		for i := 0; i < c.DeepChain; i++ {
			m := map[string]interface{}{"a": v}
			if i%100 == 0 {
				m["leaf"] = float64(i)
			}
			v = m
		}
		shared = mxj.Map(v.(map[string]interface{}))
		info.Class("deep chain shared by all goroutines")
	} else if c.Value != nil {
		shared = mxj.Map(copyMap(c.Value))
		if c.NaNList {
			shared["nanl"] = []interface{}{math.NaN(), 1.0, map[string]interface{}{"i": math.Inf(-1)}, []interface{}{math.Inf(1)}}
			info.Class("NaN/Inf inside a list of the shared Map")
		}
		if c.Alias != nil && applyAlias(shared, *c.Alias, true) {
			info.Class("shared sub-structure in the shared Map")
		}
	} else {
		m, err := mxj.NewMapXml(doc)
		if err != nil {
			return failf("decode-error", "%v", err)
		}
		shared = m
	}
	sharedSeq, err := mxj.NewMapXmlSeq(doc)
	if err != nil {
		return failf("decode-error", "%v", err)
	}
	if c.SeqViaJSON {
		cp, cerr := mxj.Map(sharedSeq).Copy()
		if cerr != nil {
			return failf("copy-error", "%v", cerr)
		}
		sharedSeq = mxj.MapSeq(cp)
		info.Class("MapSeq with float64 sequence numbers (after Copy)")
	}
	snapshot := copyMap(shared)
	seqSnapshot := copyMap(sharedSeq)
	jdoc, _ := shared.Json()
	if !sameValueNaN(map[string]interface{}(shared), snapshot) {
		return failf("receiver-modified", "Json() changed the Map\nbefore %#v\nafter  %#v", snapshot, shared)
	}

	// (a) purity, operation by operation (sequential), which also records the expected results
	want := make([][]string, len(c.Plans))
	for g := range c.Plans {
		for _, o := range c.Plans[g] {
			want[g] = append(want[g], runOpC17(o, shared, sharedSeq, doc, jdoc))
			if !sameValueNaN(map[string]interface{}(shared), snapshot) {
				return failf("receiver-modified", "%s(%q) changed the Map\nbefore %s\nafter  %s", o.Kind, o.Arg, canon(snapshot), canon(map[string]interface{}(shared)))
			}
			if !reflect.DeepEqual(map[string]interface{}(sharedSeq), seqSnapshot) {
				return failf("receiver-modified", "%s(%q) changed the MapSeq", o.Kind, o.Arg)
			}
		}
	}
	// Copy shares no mutable structure
	cp, cerr := shared.Copy()
	if c.NaNList {
		// Copy goes through JSON and fails on NaN: nothing to compare, but the receiver must be what it was
		if !sameValueNaN(map[string]interface{}(shared), snapshot) {
			return failf("receiver-modified", "a failing Copy() changed the Map: now %#v", shared)
		}
		cp, cerr = mxj.Map(copyMap(c.Value)), nil
	}
	if cerr != nil {
		return failf("copy-error", "%v", cerr)
	}
	if !c.NaNList && canon(map[string]interface{}(cp)) != canon(snapshot) {
		return failf("copy-differs", "Copy() = %s want %s", canon(map[string]interface{}(cp)), canon(snapshot))
	}
	scribble(map[string]interface{}(cp))
	if !sameValueNaN(map[string]interface{}(shared), snapshot) {
		return failf("copy-shares-structure", "changing the copy changed the original: %s", canon(map[string]interface{}(shared)))
	}
	cp2, _ := shared.Copy()
	orig2 := mxj.Map(copyMap(snapshot))
	cp3, _ := orig2.Copy()
	scribble(map[string]interface{}(orig2))
	if !c.NaNList && canon(map[string]interface{}(cp3)) != canon(map[string]interface{}(cp2)) {
		return failf("copy-shares-structure", "changing the original changed the copy")
	}

	// (b) concurrency
	old := runtime.GOMAXPROCS(c.Procs)
	defer runtime.GOMAXPROCS(old)
	got := make([][]string, len(c.Plans))
	var wg sync.WaitGroup
	start := make(chan struct{})
	yield := c.Yield
	if yield < 1 {
		yield = 1
	}
	for g := range c.Plans {
		wg.Add(1)
		go func(g int) {
			defer wg.Done()
			defer func() {
				if r := recover(); r != nil {
					got[g] = append(got[g], fmt.Sprintf("PANIC %v", r))
				}
			}()
			<-start
			for i, o := range c.Plans[g] {
				got[g] = append(got[g], runOpC17(o, shared, sharedSeq, doc, jdoc))
				if i%yield == 0 {
					runtime.Gosched()
				}
			}
		}(g)
	}
	if c.Reapply {
		// the options are not changed while the goroutines run - they were (re)set, sequentially, just before
		if c.OptBits == 0 {
			defaultOpts().apply()
		} else {
			applyUnrelatedOptions(c.OptBits)
		}
		info.Class("option setters called right before the goroutines start")
	}
	close(start)
	wg.Wait()
	for g := range c.Plans {
		for i := range c.Plans[g] {
			if i >= len(got[g]) || got[g][i] != want[g][i] {
				gs := "<missing>"
				if i < len(got[g]) {
					gs = got[g][i]
				}
				return failf("concurrent-result-differs", "goroutine %d op %d %+v\n got  %q\n want %q", g, i, c.Plans[g][i], gs, want[g][i])
			}
		}
	}
	if !sameValueNaN(map[string]interface{}(shared), snapshot) || !reflect.DeepEqual(map[string]interface{}(sharedSeq), seqSnapshot) {
		return failf("receiver-modified", "the shared Map/MapSeq changed during the concurrent run")
	}
	// classes
	kinds := map[string]bool{}
	touch := 0
	enc := false
	for g := range c.Plans {
		t := false
		for _, o := range c.Plans[g] {
			if !strings.HasPrefix(o.Kind, "Decode") && o.Kind != "EncodePrivate" && o.Kind != "AnyXml" {
				t = true
				kinds[o.Kind] = true
				enc = enc || c17SharedEncoders[o.Kind]
			}
		}
		if t {
			touch++
		}
	}
	info.Class(fmt.Sprintf("GOMAXPROCS=%d", c.Procs))
	info.ClassIf(c.Value != nil, "shared Map from a JSON-shaped value")
	info.ClassIf(len(c.Plans) >= 4, ">=4 goroutines")
	info.NonTrivial(touch >= 2 && len(kinds) >= 2 && enc)
	return nil
}

func TestC17(t *testing.T) { runProp(t, "C17", genC17, checkC17) }

// sameValueNaN is reflect.DeepEqual with NaN equal to NaN (a Map that holds NaN is unchanged when it still holds NaN there).
func sameValueNaN(a, b interface{}) bool {
	switch x := a.(type) {
	case map[string]interface{}:
		y, ok := b.(map[string]interface{})
		if !ok || len(x) != len(y) {
			return false
		}
		for k, v := range x {
			w, ok := y[k]
			if !ok || !sameValueNaN(v, w) {
				return false
			}
		}
		return true
	case []interface{}:
		y, ok := b.([]interface{})
		if !ok || len(x) != len(y) {
			return false
		}
		for i := range x {
			if !sameValueNaN(x[i], y[i]) {
				return false
			}
		}
		return true
	case float64:
		y, ok := b.(float64)
		return ok && (x == y || (math.IsNaN(x) && math.IsNaN(y)))
	}
	return reflect.DeepEqual(a, b)
}
