package props

// Reference helpers over the standard tokenizer, and the Map -> XML conventions (C03).

import (
	"bytes"
	"encoding/xml"
	"fmt"
	"io"
	"sort"
	"strconv"
	"strings"
)

// wellFormedSingleRoot: strict Token loop; balanced, exactly one root, no non-blank text outside it.
func wellFormedSingleRoot(b []byte) error {
	d := xml.NewDecoder(bytes.NewReader(b))
	depth, roots := 0, 0
	for {
		tok, err := d.Token()
		if err == io.EOF {
			break
		}
		if err != nil {
			return err
		}
		switch tt := tok.(type) {
		case xml.StartElement:
			if depth == 0 {
				roots++
			}
			depth++
		case xml.EndElement:
			depth--
		case xml.CharData:
			if depth == 0 && strings.TrimSpace(string(tt)) != "" {
				return fmt.Errorf("text outside root: %q", tt)
			}
		}
	}
	if roots != 1 {
		return fmt.Errorf("roots=%d", roots)
	}
	return nil
}

// Tok is one normalised raw token.
type Tok struct {
	Kind  string // S E T C P D
	Name  string // prefixed name / PI target
	Attrs [][2]string
	Text  string
}

func qname(n xml.Name) string {
	if n.Space != "" {
		return n.Space + ":" + n.Local
	}
	return n.Local
}

// rawTokens: normalised RawToken stream (blank text dropped, other text trimmed).
func rawTokens(b []byte) ([]Tok, error) { return rawTokensTrim(b, "\t\r\n ") }

// rawTokensTrim: the same with another cut set for the edges of text (keep-spaces leaves blanks in place).
func rawTokensTrim(b []byte, cut string) ([]Tok, error) {
	d := xml.NewDecoder(bytes.NewReader(b))
	var out []Tok
	for {
		tok, err := d.RawToken()
		if err == io.EOF {
			return out, nil
		}
		if err != nil {
			return out, err
		}
		switch tt := tok.(type) {
		case xml.StartElement:
			t := Tok{Kind: "S", Name: qname(tt.Name)}
			for _, a := range tt.Attr {
				t.Attrs = append(t.Attrs, [2]string{qname(a.Name), a.Value})
			}
			out = append(out, t)
		case xml.EndElement:
			out = append(out, Tok{Kind: "E", Name: qname(tt.Name)})
		case xml.CharData:
			s := strings.Trim(string(tt), cut)
			if s != "" {
				// adjacent character data tokens (text + CDATA) are one text run
				if n := len(out); n > 0 && out[n-1].Kind == "T" {
					out[n-1].Text += s
				} else {
					out = append(out, Tok{Kind: "T", Text: s})
				}
			}
		case xml.Comment:
			out = append(out, Tok{Kind: "C", Text: string(tt)})
		case xml.ProcInst:
			out = append(out, Tok{Kind: "P", Name: tt.Target, Text: string(tt.Inst)})
		case xml.Directive:
			out = append(out, Tok{Kind: "D", Text: string(tt)})
		}
	}
}

func toksEqual(a, b []Tok) (bool, int) {
	for i := 0; i < len(a) && i < len(b); i++ {
		x, y := a[i], b[i]
		if x.Kind != y.Kind || x.Name != y.Name || x.Text != y.Text || len(x.Attrs) != len(y.Attrs) {
			return false, i
		}
		for j := range x.Attrs {
			if x.Attrs[j] != y.Attrs[j] {
				return false, i
			}
		}
	}
	if len(a) != len(b) {
		if len(a) < len(b) {
			return false, len(a)
		}
		return false, len(b)
	}
	return true, -1
}

// ---- Map -> XML conventions ----

func scalarText(v interface{}) string {
	switch x := v.(type) {
	case nil:
		return ""
	case string:
		return x
	case float64:
		return strconv.FormatFloat(x, 'g', -1, 64)
	case bool:
		return strconv.FormatBool(x)
	}
	return fmt.Sprintf("%v", v)
}

// refTextKey is the text key refElems assumes; C03 switches it to "_text" while the global key prefix is "_".
var refTextKey = "#text"

// refElems: the elements a (key, value) entry denotes (default prefixes '-' and '#text').
func refElems(key string, v interface{}) []*XElem {
	switch x := v.(type) {
	case []interface{}:
		if len(x) == 0 {
			return []*XElem{{Local: key}}
		}
		var out []*XElem
		for _, m := range x {
			out = append(out, refElems(key, m)...)
		}
		return out
	case map[string]interface{}:
		e := &XElem{Local: key}
		keys := make([]string, 0, len(x))
		for k := range x {
			keys = append(keys, k)
		}
		sort.Strings(keys)
		isAttr := func(k string) bool { return strings.HasPrefix(k, "-") && len(k) > 1 }
		for _, k := range keys {
			if isAttr(k) {
				e.Attrs = append(e.Attrs, XAttr{Local: k[1:], Value: scalarText(x[k])})
			}
		}
		if tv, ok := x[refTextKey]; ok {
			e.Items = append(e.Items, XItem{Kind: kText, Text: scalarText(tv)})
		}
		for _, k := range keys {
			if isAttr(k) || k == refTextKey {
				continue
			}
			for _, c := range refElems(k, x[k]) {
				e.Items = append(e.Items, XItem{Kind: kElem, El: c})
			}
		}
		return []*XElem{e}
	default:
		e := &XElem{Local: key}
		if s := scalarText(v); s != "" {
			e.Items = []XItem{{Kind: kText, Text: s}}
		}
		return []*XElem{e}
	}
}
