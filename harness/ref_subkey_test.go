package props

// Sub-key conditions: generator, spec strings and the three-valued reference predicate (C08, C10).

import (
	"encoding/json"
	"fmt"
	"reflect"
	"strings"

	"pgregory.net/rapid"
)

type Cond struct {
	Key   string      `json:"key"`
	Neg   bool        `json:"neg,omitempty"`
	Wild  bool        `json:"wild,omitempty"`
	Val   interface{} `json:"val,omitempty"`   // string | bool | float64
	Typed bool        `json:"typed,omitempty"` // explicit ":string" suffix
}

func jsonNum(f float64) string { b, _ := json.Marshal(f); return string(b) }

// Spec renders the condition as a "key:val[:type]" argument with the given separator.
func (c Cond) Spec(sep string) string {
	s := c.Key
	if c.Neg {
		s = "!" + s
	}
	switch v := c.Val.(type) {
	case nil:
		if c.Wild {
			return s + sep + "*"
		}
		return s + sep
	case string:
		s += sep + v
		if c.Typed {
			s += sep + "string"
		}
	case bool:
		s += fmt.Sprintf("%s%v%sbool", sep, v, sep)
	case float64:
		s += sep + jsonNum(v) + sep + "num"
	}
	return s
}

// condHolds is three-valued: 1 true, 0 false, -1 unspecified ("!k:v" on a map lacking k; leniency 2).
func condHolds(m map[string]interface{}, c Cond) int {
	v, ok := m[c.Key]
	if c.Wild {
		if c.Neg == ok {
			return 0
		}
		return 1
	}
	if !ok {
		if c.Neg {
			return -1
		}
		return 0
	}
	eq := v != nil && c.Val != nil && reflect.TypeOf(v) == reflect.TypeOf(c.Val) && v == c.Val
	if c.Neg == eq {
		return 0
	}
	return 1
}

// condsHold: all conditions on value v (which must be a map to satisfy any).
func condsHold(v interface{}, cs []Cond) int {
	if len(cs) == 0 {
		return 1
	}
	m, ok := v.(map[string]interface{})
	if !ok {
		return 0
	}
	res := 1
	for _, c := range cs {
		switch condHolds(m, c) {
		case 0:
			return 0
		case -1:
			res = -1
		}
	}
	return res
}

func genConds(t *rapid.T, min, max int) []Cond {
	var cs []Cond
	nc := rapid.IntRange(min, max).Draw(t, "ncond")
	used := map[string]bool{}
	for i := 0; i < nc; i++ {
		c := Cond{Key: rapid.SampledFrom(shapeKeys).Draw(t, "ckey"), Neg: rapid.Bool().Draw(t, "neg")}
		if used[c.Key] {
			continue
		}
		used[c.Key] = true
		switch rapid.IntRange(0, 3).Draw(t, "ckind") {
		case 0:
			c.Wild = true
		case 1:
			c.Val = rapid.SampledFrom([]string{"x", "y", "z z"}).Draw(t, "cs")
			c.Typed = rapid.Bool().Draw(t, "typed")
		case 2:
			c.Val = rapid.Bool().Draw(t, "cb")
		case 3:
			c.Val = float64(rapid.IntRange(0, 5).Draw(t, "cf"))
		}
		cs = append(cs, c)
	}
	return cs
}

func specs(cs []Cond, sep string) []string {
	out := make([]string, len(cs))
	for i, c := range cs {
		out[i] = c.Spec(sep)
	}
	return out
}

// subMultiset: a ⊆ b as multisets of canonical strings (both sorted).
func subMultiset(a, b []string) bool {
	i := 0
	for _, x := range a {
		for i < len(b) && b[i] < x {
			i++
		}
		if i >= len(b) || b[i] != x {
			return false
		}
		i++
	}
	return true
}

// genCondsFrom draws conditions of which about half are taken from an entry of
// one of the candidate maps, so that filters with passing candidates are frequent.
func genCondsFrom(t *rapid.T, min, max int, cands []interface{}) []Cond {
	var maps []map[string]interface{}
	for _, c := range cands {
		if m, ok := c.(map[string]interface{}); ok && len(m) > 0 {
			maps = append(maps, m)
		}
	}
	cs := genConds(t, min, max)
	if len(maps) == 0 {
		return cs
	}
	for i := range cs {
		if !rapid.Bool().Draw(t, "fromcand") {
			continue
		}
		m := maps[rapid.IntRange(0, len(maps)-1).Draw(t, "candidx")]
		ks := sortedKeys(m)
		k := ks[rapid.IntRange(0, len(ks)-1).Draw(t, "candkey")]
		dup := false
		for j := range cs {
			if j != i && cs[j].Key == k {
				dup = true
			}
		}
		if dup || k == "" || strings.ContainsAny(k, ":|=>§\t") { // a sub-key argument needs a name, and one that no separator splits
			continue
		}
		if strings.HasPrefix(k, "!") {
			// a label that begins with the negation mark can only be named in a negated condition ("!!x:v")
			cs[i].Neg = true
		}
		cs[i].Key = k
		switch v := m[k].(type) {
		case string:
			if v != "" && !cs[i].Wild {
				cs[i].Val, cs[i].Typed = v, false
			} else {
				cs[i].Wild, cs[i].Val = true, nil
			}
		case bool:
			cs[i].Wild, cs[i].Val = false, v
		case float64:
			cs[i].Wild, cs[i].Val = false, v
		default:
			cs[i].Wild, cs[i].Val = true, nil
		}
	}
	return cs
}
