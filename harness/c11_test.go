package props

// C11 - SetValueForPath, Remove, RenameKey touch exactly one entry or fail cleanly.
// Histories of operations are generated against a plain nested-map model and then
// executed on both the model and the Map; the two must agree after every step.

import (
	"fmt"
	"reflect"
	"strings"
	"testing"

	mxj "github.com/clbanning/mxj/v2"
	"pgregory.net/rapid"
)

type OpC11 struct {
	Kind    string      `json:"kind"` // set | remove | rename | query
	Segs    []string    `json:"segs"`
	NewName string      `json:"new_name,omitempty"`
	Val     interface{} `json:"val,omitempty"`
	Typed   int         `json:"typed,omitempty"` // > 0: the value is a container built in Go with members JSON does not round-trip (see typedC11Val); set at check time
}

// typedC11Val: values a program stores that did not come from a decoder - Go integers (also above 2^53), a string that is
// not valid UTF-8, a member of type Map, a []string. SetValueForPath stores the value it is given.
func typedC11Val(k int) interface{} {
	switch k % 5 {
	case 1:
		return map[string]interface{}{"n": 7, "s": "x"}
	case 2:
		return map[string]interface{}{"big": int64(9007199254740993), "u": uint64(18446744073709551615)}
	case 3:
		return []interface{}{int32(1), "x", float32(0.1)}
	case 4:
		return map[string]interface{}{"raw": "a\xffb", "l": []string{"p", "q"}}
	}
	return map[string]interface{}{"inner": map[string]interface{}{"i": 3, "f": 2.5}}
}

type CaseC11 struct {
	Map       map[string]interface{} `json:"map"`
	Ops       []OpC11                `json:"ops"`
	Unrelated uint32                 `json:"unrelated_opts,omitempty"`
}

func init() { register("C11", checkC11) }

var c11Keys = []string{"a", "b", "c", "d"}

// keys that differ only by white space at their ends are different keys (JSON names; nothing documents trimming)
var c11SpacedKeys = []string{"a", "a ", " a", "b", "b\t", "c", "c\u00a0", "\nd"}

// keys that look like list subscripts
// a namespace-like prefix: "ns:a" and "a" are different keys, neither stands for the other
var c11ColonKeys = []string{"a", "ns:a", "b", "x:b", "c", "dc:c", "d", "ns:d"}

// keys with characters that mean something in OTHER path notations (file paths, URLs, globs, JSON pointers)
var c11SlashKeys = []string{"a", "a/b", "b", "content/type", "c/", "/d", "d", "e.g"[:1] + "~0", "c:\\x", "a|b", "q?", "x#y"}

// the empty string as a member name ("a..b" is a path of three segments; a path cannot END in the empty key)
var c11EmptyKeys = []string{"a", "", "b", "", "c"}

var c11NumericKeys = []string{"a", "0", "1", "b", "00", "c", "-1", "2"}

func genMapsOnly(t *rapid.T, d int) map[string]interface{} {
	m := map[string]interface{}{}
	n := rapid.IntRange(1, 4).Draw(t, "n")
	for i := 0; i < n; i++ {
		k := rapid.SampledFrom(c11Keys).Draw(t, "k")
		switch r := rapid.IntRange(0, 11).Draw(t, "vk"); {
		case r < 5 && d > 0:
			m[k] = genMapsOnly(t, d-1)
		case r < 6:
			m[k] = []interface{}{"l1", map[string]interface{}{"a": "in-list"}}
		case r < 7:
			m[k] = []interface{}{map[string]interface{}{"a": "x", "b": "y"}, map[string]interface{}{"a": "z"}}
			if rapid.IntRange(0, 3).Draw(t, "list32") == 2 {
				// a list of exactly 32 scalars (the default result capacity), or 31 / 33
				n := rapid.SampledFrom([]int{31, 32, 32, 33}).Draw(t, "listn")
				l := make([]interface{}, n)
				for i := range l {
					l[i] = float64(i)
				}
				m[k] = l
			}
		case r < 8:
			m[k] = nil
		case r < 9:
			if rapid.Bool().Draw(t, "xmlshaped") {
				m[k] = map[string]interface{}{"#text": "old", "-id": "7"} // a simple element with attributes
			} else {
				m[k] = map[string]interface{}{}
			}
		case r < 10:
			m[k] = float64(rapid.IntRange(0, 3).Draw(t, "f"))
		default:
			m[k] = rapid.SampledFrom([]string{"x", "y", ""}).Draw(t, "s")
		}
	}
	return m
}

// c11Deep > 0 while a deep case is generated: the Map is wrapped in that many single-entry maps and paths may be as long
var c11Deep int

func genDotPath(t *rapid.T, root map[string]interface{}) []string {
	n := rapid.IntRange(1, 4).Draw(t, "plen")
	existDen := 5
	if c11Deep > 0 {
		// paths of every length up to the depth of the Map (and a little beyond): 9 segments is as ordinary as 3
		n = rapid.IntRange(1, c11Deep+5).Draw(t, "deepplen")
		existDen = 60
	}
	var segs []string
	var cur interface{} = root
	for i := 0; i < n; i++ {
		var cands []string
		if m, ok := cur.(map[string]interface{}); ok {
			cands = sortedKeys(m)
		}
		var s string
		if len(cands) > 0 && rapid.IntRange(0, existDen).Draw(t, "exist") > 0 {
			s = rapid.SampledFrom(cands).Draw(t, "ck")
		} else {
			s = rapid.SampledFrom(append([]string{"zz"}, c11Keys...)).Draw(t, "rk")
		}
		segs = append(segs, s)
		if m, ok := cur.(map[string]interface{}); ok {
			cur = m[s]
		} else {
			cur = nil
		}
		if _, ok := cur.(map[string]interface{}); !ok && rapid.IntRange(0, 2).Draw(t, "stop") > 0 {
			break
		}
	}
	if segs[len(segs)-1] == "" {
		segs[len(segs)-1] = "a" // "x." is read as "x": the empty key cannot be the last segment
	}
	return segs
}

// ---- the model ----

// parentKind: "map" (parent reached through maps only and is a map), "nil" (parent value is null),
// "list" (a list lies on the way), "none" (missing or scalar on the way).
func modelParent(root map[string]interface{}, segs []string) (map[string]interface{}, string) {
	var cur interface{} = root
	for _, s := range segs[:len(segs)-1] {
		m, ok := cur.(map[string]interface{})
		if !ok {
			if _, isList := cur.([]interface{}); isList {
				return nil, "list"
			}
			return nil, "none"
		}
		v, ok := m[s]
		if !ok {
			return nil, "none"
		}
		cur = v
	}
	switch x := cur.(type) {
	case map[string]interface{}:
		return x, "map"
	case []interface{}:
		return nil, "list"
	case nil:
		return nil, "nil"
	}
	return nil, "none"
}

// applyModel applies op to the model and says whether it is applicable.
func applyModel(root map[string]interface{}, op OpC11) (applied bool, kind string) {
	parent, pk := modelParent(root, op.Segs)
	last := op.Segs[len(op.Segs)-1]
	switch op.Kind {
	case "set":
		if pk == "map" {
			parent[last] = deepCopy(op.Val)
			return true, pk
		}
	case "remove":
		if pk == "map" {
			if _, ok := parent[last]; ok {
				delete(parent, last)
				return true, pk
			}
			return false, "missing"
		}
	case "rename":
		if pk == "map" {
			v, ok := parent[last]
			if !ok {
				return false, "missing"
			}
			if _, sib := parent[op.NewName]; sib {
				return false, "sibling"
			}
			parent[op.NewName] = v
			delete(parent, last)
			return true, pk
		}
	}
	return false, pk
}

func genC11(t *rapid.T) CaseC11 {
	saved := c11Keys
	defer func() { c11Keys = saved }()
	switch rapid.IntRange(0, 7).Draw(t, "spaced") {
	case 0:
		c11Keys = c11SpacedKeys
	case 1:
		c11Keys = c11NumericKeys
	case 2:
		c11Keys = c11ColonKeys
	case 3:
		c11Keys = c11SlashKeys
	case 4:
		c11Keys = c11EmptyKeys
	}
	c := CaseC11{Map: genMapsOnly(t, 3)}
	c11Deep = 0
	defer func() { c11Deep = 0 }()
	if rapid.IntRange(0, 5).Draw(t, "deep") == 0 {
		c11Deep = rapid.IntRange(4, 70).Draw(t, "depth")
		for i := 0; i < c11Deep; i++ {
			outer := map[string]interface{}{rapid.SampledFrom(c11Keys).Draw(t, "wk"): c.Map}
			if rapid.IntRange(0, 3).Draw(t, "sib") == 0 {
				outer["sib"] = "s"
			}
			c.Map = outer
		}
	}
	model := copyMap(c.Map)
	n := rapid.IntRange(1, 12).Draw(t, "nops")
	for i := 0; i < n; i++ {
		op := OpC11{Kind: rapid.SampledFrom([]string{"set", "set", "remove", "rename", "rename", "query"}).Draw(t, "op")}
		op.Segs = genDotPath(t, model)
		switch op.Kind {
		case "set":
			switch rapid.IntRange(0, 3).Draw(t, "valkind") {
			case 0:
				op.Val = map[string]interface{}{"n": fmt.Sprintf("V%d", i)}
			case 1:
				op.Val = []interface{}{fmt.Sprintf("V%d", i)}
			default:
				op.Val = fmt.Sprintf("V%d", i)
			}
			if rapid.IntRange(0, 5).Draw(t, "typedval") == 3 {
				op.Typed = rapid.IntRange(1, 5).Draw(t, "typedkind")
				op.Val = typedC11Val(op.Typed)
			}
		case "rename":
			op.NewName = rapid.SampledFrom(append([]string{"nn", "mm"}, c11Keys...)).Draw(t, "nn")
			if op.NewName == "" {
				op.NewName = "nn" // a new NAME; whether a key may be renamed to the empty string is not part of the property
			}
		}
		applyModel(model, op)
		c.Ops = append(c.Ops, op)
	}
	c.Unrelated = genUnrelated(t)
	return c
}

func diffCount(a, b interface{}) int {
	switch x := a.(type) {
	case map[string]interface{}:
		y, ok := b.(map[string]interface{})
		if !ok {
			return 1
		}
		n := 0
		for k, v := range x {
			if w, ok := y[k]; ok {
				n += diffCount(v, w)
			} else {
				n++
			}
		}
		for k := range y {
			if _, ok := x[k]; !ok {
				n++
			}
		}
		return n
	case []interface{}:
		y, ok := b.([]interface{})
		if !ok || len(x) != len(y) {
			return 1
		}
		n := 0
		for i := range x {
			n += diffCount(x[i], y[i])
		}
		return n
	}
	if reflect.DeepEqual(a, b) {
		return 0
	}
	return 1
}

// diffCountSet counts like diffCount, but an entry that now holds the value just set counts as ONE changed entry
// even when old and new value are both maps (replacing {"a":..,"n":..} by {"n":..} is one replacement, not two).
func diffCountSet(a, b, val interface{}) int {
	if reflect.DeepEqual(b, val) {
		if reflect.DeepEqual(a, b) {
			return 0
		}
		return 1
	}
	switch x := a.(type) {
	case map[string]interface{}:
		y, ok := b.(map[string]interface{})
		if !ok {
			return 1
		}
		n := 0
		for k, v := range x {
			if w, ok := y[k]; ok {
				n += diffCountSet(v, w, val)
			} else {
				n++
			}
		}
		for k := range y {
			if _, ok := x[k]; !ok {
				n++
			}
		}
		return n
	case []interface{}:
		y, ok := b.([]interface{})
		if !ok || len(x) != len(y) {
			return 1
		}
		n := 0
		for i := range x {
			n += diffCountSet(x[i], y[i], val)
		}
		return n
	}
	if reflect.DeepEqual(a, b) {
		return 0
	}
	return 1
}

func countEntries(v interface{}) int {
	n := 0
	switch x := v.(type) {
	case map[string]interface{}:
		for _, vv := range x {
			n += 1 + countEntries(vv)
		}
	case []interface{}:
		for _, vv := range x {
			n += countEntries(vv)
		}
	}
	return n
}

func hasEmptyList(v interface{}) bool {
	switch x := v.(type) {
	case map[string]interface{}:
		for _, vv := range x {
			if hasEmptyList(vv) {
				return true
			}
		}
	case []interface{}:
		if len(x) == 0 {
			return true
		}
		for _, vv := range x {
			if hasEmptyList(vv) {
				return true
			}
		}
	}
	return false
}

func checkC11(c CaseC11, info *Info) *Failure {
	if c.Map == nil || len(c.Ops) == 0 {
		info.Skip = "empty case"
		return nil
	}
	if hasEmptyList(c.Map) {
		info.Skip = "empty list in the Map (outside the domain)"
		return nil
	}
	defer resetOptions()
	applyUnrelatedOptions(c.Unrelated)
	info.ClassIf(c.Unrelated != 0, "unrelated options switched on")
	for i := range c.Ops {
		if c.Ops[i].Typed > 0 {
			c.Ops[i].Val = typedC11Val(c.Ops[i].Typed) // (a replayed case has lost the Go types)
			info.Class("a stored value with Go-typed members (int, int64 above 2^53, invalid UTF-8, []string)")
		}
	}
	subject := copyMap(c.Map)
	model := copyMap(c.Map)
	mv := mxj.Map(subject)
	succ, refusedSibling := 0, 0
	for i, op := range c.Ops {
		if len(op.Segs) == 0 {
			continue
		}
		path := strings.Join(op.Segs, ".")
		before := copyMap(model)
		applied, why := applyModel(model, op)
		if applied && len(op.Segs) >= 8 {
			info.Class("a successful operation on a path of 8 or more segments")
		}
		desc := fmt.Sprintf("step %d %s(%q", i, op.Kind, path)
		if op.Kind == "rename" {
			desc += "," + op.NewName
		}
		desc += ") on " + canon(before)
		var err error
		switch op.Kind {
		case "set":
			err = mv.SetValueForPath(deepCopy(op.Val), path)
		case "remove":
			err = mv.Remove(path)
		case "rename":
			err = mv.RenameKey(path, op.NewName)
		case "query":
			ex, _ := mv.Exists(path)
			parent, pk := modelParent(model, op.Segs)
			if pk == "map" {
				v, ok := parent[op.Segs[len(op.Segs)-1]]
				l, isList := v.([]interface{})
				wantEx := ok && !(isList && len(l) == 0)
				if ex != wantEx {
					return failf("exists-mismatch", "%s: Exists=%v want %v", desc, ex, wantEx)
				}
			}
		}
		if applied {
			if err != nil {
				return failf("applicable-operation-failed", "%s: %v", desc, err)
			}
			if !reflect.DeepEqual(subject, model) {
				return failf("wrong-effect", "%s\n got  %s\n want %s", desc, canon(subject), canon(model))
			}
			switch op.Kind {
			case "set":
				got, gerr := mv.ValueForPath(path)
				want := op.Val
				if l, ok := want.([]interface{}); ok && len(l) > 0 {
					want = l[0] // a list value is returned as its members
				}
				if gerr != nil || !reflect.DeepEqual(got, want) {
					return failf("post-condition", "%s: ValueForPath afterwards = %s,%v", desc, canon(got), gerr)
				}
			case "remove":
				if ex, _ := mv.Exists(path); ex {
					return failf("post-condition", "%s: path still exists", desc)
				}
			case "rename":
				np := append(append([]string{}, op.Segs[:len(op.Segs)-1]...), op.NewName)
				if ex, _ := mv.Exists(path); ex {
					return failf("post-condition", "%s: old path still exists", desc)
				}
				parent, _ := modelParent(model, np)
				if l, isList := parent[op.NewName].([]interface{}); !(isList && len(l) == 0) {
					if ex, _ := mv.Exists(strings.Join(np, ".")); !ex {
						return failf("post-condition", "%s: new path does not exist", desc)
					}
				}
			}
			succ++
			continue
		}
		// not applicable: error or documented no-op, Map unchanged
		changed := diffCount(model, subject)
		switch {
		case op.Kind == "query":
		case op.Kind == "set" && why == "list":
			// the parent is reached through a list: outside "dot-paths through nested maps";
			// only the frame is enforced (nothing with an error, at most one entry otherwise)
			info.Unspecified("set below a list (outside nested-map paths): only the frame is enforced")
			changed = diffCountSet(model, subject, op.Val)
			if (err != nil && changed != 0) || changed > 1 {
				return failf("frame-violated", "%s: error %v, %d entries changed: %s", desc, err, changed, canon(subject))
			}
			model = copyMap(subject)
		case why == "sibling":
			refusedSibling++
			if err == nil {
				return failf("rename-overwrote-sibling", "%s: no error although %q already exists; now %s", desc, op.NewName, canon(subject))
			}
			if changed != 0 {
				return failf("modified-on-failure", "%s: error %v but the Map changed to %s", desc, err, canon(subject))
			}
		default:
			if changed != 0 {
				return failf("modified-on-failure", "%s: not applicable (%s), returned %v, but the Map changed to %s", desc, why, err, canon(subject))
			}
		}
	}
	info.ClassIf(succ >= 3, "history with >=3 successful mutations")
	info.ClassIf(refusedSibling > 0, "rename refused for an existing sibling")
	info.ClassIf(succ > 0, "some operation succeeded")
	info.NonTrivial((succ > 0 && countEntries(c.Map) >= 3) || refusedSibling > 0)
	return nil
}

func TestC11(t *testing.T) { runProp(t, "C11", genC11, checkC11) }
