package props

// C07 - ValuesForPath returns exactly the values a dot/wildcard/indexed path denotes.

import (
	"fmt"
	"reflect"
	"strings"
	"testing"

	mxj "github.com/clbanning/mxj/v2"
	"github.com/clbanning/mxj/v2/j2x"
	"github.com/clbanning/mxj/v2/x2j"
	"pgregory.net/rapid"
)

type CaseC07 struct {
	Src       string                 `json:"src"`
	Map       map[string]interface{} `json:"map"`
	Steps     []Step                 `json:"steps"`
	ArraySize int                    `json:"array_size"`
	Unrelated uint32                 `json:"unrelated_opts,omitempty"` // options that must not matter, see applyUnrelatedOptions
	Alias     *AliasSpec             `json:"alias,omitempty"`          // one container object gets a second parent in the subject Map
}

func init() { register("C07", checkC07) }

func genC07(t *rapid.T) CaseC07 {
	var c CaseC07
	switch r := rapid.IntRange(0, 19).Draw(t, "src"); {
	case r == 0:
		c.Src = "boost-two-indexed"
		c.Map, c.Steps = boostTwoIndexed(t)
	case r == 1:
		c.Src = "boost-wide"
		c.Map, c.Steps = boostWide(t)
	case r == 2:
		c.Src = "boost-list-in-list"
		c.Map, c.Steps, _ = boostLIL(t)
	case r == 3:
		c.Src = "boost-empty-key"
		c.Map, c.Steps, _ = boostEmptyKey(t)
	case r == 4:
		c.Src = "boost-deep-list-in-list"
		c.Map, c.Steps, _ = boostDeepLIL(t)
	default:
		indexed := rapid.Bool().Draw(t, "indexed")
		lil := !indexed && rapid.IntRange(0, 3).Draw(t, "lil") == 0
		c.Src = "shape"
		sh := genRootShape(t, lil)
		c.Map = instantiate(t, sh).(map[string]interface{})
		c.Steps = genShapePath(t, sh, indexed)
		if rapid.IntRange(0, 9).Draw(t, "colonize") == 0 {
			colonize(t, c.Map)
		}
	}
	if rapid.IntRange(0, 7).Draw(t, "wrapdeep") == 0 && len(c.Steps) > 0 {
		c.Src += "+deep"
		c.Map, c.Steps = wrapDeep(t, c.Map, c.Steps)
	}
	if rapid.IntRange(0, 7).Draw(t, "setsize") == 0 {
		c.ArraySize = rapid.SampledFrom([]int{1, 31, 33, 40, 64, 100}).Draw(t, "asize")
	}
	c.Unrelated = genUnrelated(t)
	if rapid.IntRange(0, 7).Draw(t, "alias") == 0 {
		c.Alias = &AliasSpec{Src: rapid.IntRange(0, 30).Draw(t, "asrc"), Dst: rapid.IntRange(0, 30).Draw(t, "adst"), Key: rapid.SampledFrom(shapeKeys).Draw(t, "akey")}
	}
	return c
}

func hasWildcard(steps []Step) bool {
	for _, s := range steps {
		if s.Name == "*" {
			return true
		}
	}
	return false
}

func countIndexed(steps []Step) int {
	n := 0
	for _, s := range steps {
		if s.Index >= 0 {
			n++
		}
	}
	return n
}

func compareVals(got, want []interface{}, multiset bool) bool {
	if len(got) == 0 && len(want) == 0 {
		return true
	}
	if multiset {
		return sameMultiset(got, want)
	}
	return reflect.DeepEqual(got, want)
}

func memberOf(v interface{}, set []interface{}) bool {
	for _, s := range set {
		if reflect.DeepEqual(v, s) {
			return true
		}
	}
	return false
}

func checkC07(c CaseC07, info *Info) *Failure {
	if len(c.Steps) == 0 || c.Map == nil {
		info.Skip = "empty case"
		return nil
	}
	idx := countIndexed(c.Steps)
	if idx > 0 && hasListInList(c.Map) {
		info.Skip = "indexed path over list-in-list (outside the domain)"
		return nil
	}
	for _, s := range c.Steps {
		if s.Index >= 0 && s.Name == "*" {
			info.Skip = "index on a wildcard step (outside the domain)"
			return nil
		}
	}
	defer resetOptions()
	applyUnrelatedOptions(c.Unrelated)
	info.ClassIf(c.Unrelated != 0, "unrelated options switched on")
	if c.ArraySize > 0 {
		mxj.SetArraySize(c.ArraySize)
	}
	path := pathString(c.Steps)
	subject := copyMap(c.Map)
	if c.Alias != nil {
		byValue := copyMap(c.Map)
		if applyAlias(subject, *c.Alias, true) && applyAlias(byValue, *c.Alias, false) && !(idx > 0 && hasListInList(byValue)) {
			c.Map = byValue
			info.Class("shared sub-structure in the subject")
		} else {
			subject = copyMap(c.Map)
		}
	}
	want := refEval(copyMap(c.Map), c.Steps)
	wild := hasWildcard(c.Steps)

	got, err := mxj.Map(subject).ValuesForPath(path)
	if err != nil {
		return failf("error", "ValuesForPath(%q) returned error %v", path, err)
	}
	if !compareVals(got, want, wild) {
		return failf("values-mismatch", "map %s path %q\n got  %s\n want %s", canon(c.Map), path, canon(got), canon(want))
	}
	// the same question asked again gets the same answer (and the first answer is still intact)
	first := append([]interface{}(nil), got...)
	again, aerr := mxj.Map(subject).ValuesForPath(path)
	if aerr != nil || !compareVals(again, want, wild) || !compareVals(got, first, false) {
		return failf("values-mismatch", "map %s path %q: second call returned %s (%v), first result now %s, want %s", canon(c.Map), path, canon(again), aerr, canon(got), canon(want))
	}
	// ValueForPath / ValueForPathString / Exists
	v, verr := mxj.Map(subject).ValueForPath(path)
	vs, vserr := mxj.Map(subject).ValueForPathString(path)
	ex, exerr := mxj.Map(subject).Exists(path)
	if exerr != nil || ex != (len(want) > 0) {
		return failf("exists-mismatch", "map %s path %q Exists=%v,%v want %v", canon(c.Map), path, ex, exerr, len(want) > 0)
	}
	if len(want) == 0 {
		if verr != mxj.PathNotExistError || v != nil {
			return failf("first-value-mismatch", "map %s path %q ValueForPath=%v,%v want nil,PathNotExistError", canon(c.Map), path, v, verr)
		}
		if vserr == nil {
			return failf("first-value-mismatch", "map %s path %q ValueForPathString=%q,nil want error", canon(c.Map), path, vs)
		}
	} else {
		if verr != nil || vserr != nil {
			return failf("first-value-mismatch", "map %s path %q ValueForPath err=%v ValueForPathString err=%v", canon(c.Map), path, verr, vserr)
		}
		if !wild {
			if !reflect.DeepEqual(v, want[0]) {
				return failf("first-value-mismatch", "map %s path %q ValueForPath=%s want %s", canon(c.Map), path, canon(v), canon(want[0]))
			}
			if _, isMap := want[0].(map[string]interface{}); !isMap && vs != fmt.Sprintf("%v", want[0]) {
				return failf("first-value-mismatch", "map %s path %q ValueForPathString=%q want %q", canon(c.Map), path, vs, fmt.Sprintf("%v", want[0]))
			}
		} else if !memberOf(v, want) {
			return failf("first-value-mismatch", "map %s path %q ValueForPath=%s not among %s", canon(c.Map), path, canon(v), canon(want))
		}
	}
	// ValueOrEmptyForPathString is ValueForPathString with the error dropped
	if oe := mxj.Map(subject).ValueOrEmptyForPathString(path); !wild && oe != vs {
		return failf("first-value-mismatch", "map %s path %q ValueOrEmptyForPathString=%q, ValueForPathString=%q (%v)", canon(c.Map), path, oe, vs, vserr)
	} else if len(want) == 0 && oe != "" {
		return failf("first-value-mismatch", "map %s path %q ValueOrEmptyForPathString=%q although the path yields nothing", canon(c.Map), path, oe)
	}
	if !reflect.DeepEqual(subject, c.Map) {
		return failf("receiver-modified", "map %s path %q receiver now %s", canon(c.Map), path, canon(subject))
	}
	// wrappers on the encoded document
	jb, jerr := mxj.Map(subject).Json()
	if jerr != nil {
		return failf("error", "Json() failed on %s: %v", canon(c.Map), jerr)
	}
	firstKey := ""
	if len(c.Steps) > 0 {
		firstKey = c.Steps[0].Name
	}
	// the text as encoded; a text of the same meaning that spells a top-level key twice (the decoder keeps the last);
	// and the text handed over in a buffer the caller has used for another document of the same length before
	docs := [][]byte{jb, dupTopKey(jb, subject, firstKey)}
	docs = append(docs, reuseBuffer(jb, false, func(b []byte) { j2x.JsonValuesForKeyPath(b, path) }))
	for _, d := range docs {
		jv, jverr := j2x.JsonValuesForKeyPath(d, path)
		if jverr != nil || !compareVals(jv, want, wild) {
			return failf("json-wrapper-mismatch", "map %s path %q j2x.JsonValuesForKeyPath(%s)=%s,%v want %s", canon(c.Map), path, d, canon(jv), jverr, canon(want))
		}
	}
	if !hasEmptyKeyOrOdd(c.Map) {
		xb, xerr := mxj.Map(copyMap(c.Map)).Xml()
		if xerr == nil {
			m2, derr := mxj.NewMapXml(xb)
			if derr == nil {
				steps2 := c.Steps
				if len(c.Map) != 1 || isListVal(c.Map) {
					steps2 = append([]Step{{Name: "doc", Index: -1}}, c.Steps...)
				}
				want2 := refEval(copyMap(m2), steps2)
				if len(xb)%2 == 0 {
					xb = reuseBuffer(xb, true, func(b []byte) { x2j.XmlValuesForPath(b, pathString(steps2)) })
				} else {
					// the same bytes were looked up a moment ago under other decoder options, and the caller changed what it got
					underOtherOptions(func() {
						vs, _ := x2j.XmlValuesForPath(xb, pathString(steps2))
						for _, v := range vs {
							scribble(v)
						}
						x2j.XmlValuesForPath(xb, "*")
					})
				}
				xv, xverr := x2j.XmlValuesForPath(xb, pathString(steps2))
				if xverr != nil || !compareVals(xv, want2, wild) {
					return failf("xml-wrapper-mismatch", "xml %s path %q x2j.XmlValuesForPath=%s,%v want %s", xb, pathString(steps2), canon(xv), xverr, canon(want2))
				}
			}
		}
	}

	if f := staleAfterChange(subject, "ValuesForPath("+path+")", func(v mxj.Map) string {
		vs, err := v.ValuesForPath(path)
		ex, _ := v.Exists(path)
		return fmt.Sprint(sortedCanon(vs), err, ex)
	}); f != nil {
		return f
	}
	// classes and non-triviality
	crossing := wild || idx > 0 || crossesList(c.Map, c.Steps)
	info.Class("src:" + c.Src)
	info.ClassIf(len(want) > 0, "non-empty result")
	info.ClassIf(len(want) > 0 && crossing, "non-empty and crosses a list or uses */[i]")
	info.ClassIf(len(want) > 0 && idx >= 2, "non-empty with >=2 indexed steps")
	info.ClassIf(len(want) > 0 && indexedAfterPlain(c.Steps), "non-empty with indexed step after plain step")
	info.ClassIf(len(want) > 32, "result wider than 32")
	info.ClassIf(hasListInList(c.Map), "list-in-list map")
	info.ClassIf(c.ArraySize > 0, "SetArraySize used")
	info.NonTrivial(len(want) > 0 && crossing)
	return nil
}

func indexedAfterPlain(steps []Step) bool {
	for i := 1; i < len(steps); i++ {
		if steps[i].Index >= 0 && steps[i-1].Index < 0 {
			return true
		}
	}
	return false
}

// crossesList: some prefix of the (plain) path reaches a list.
func crossesList(m map[string]interface{}, steps []Step) bool {
	cur := []interface{}{m}
	for _, s := range steps {
		cur = stepPlain(cur, s.Name)
		for _, v := range cur {
			if _, ok := v.([]interface{}); ok {
				return true
			}
		}
	}
	return false
}

func isListVal(m map[string]interface{}) bool {
	for _, v := range m {
		if _, ok := v.([]interface{}); ok {
			return true
		}
	}
	return false
}

// hasEmptyKeyOrOdd: keys that are not XML names (the XML wrapper comparison is skipped then).
func hasEmptyKeyOrOdd(v interface{}) bool {
	switch x := v.(type) {
	case map[string]interface{}:
		for k, vv := range x {
			if k == "" || strings.ContainsAny(k, " .[]*<>&\"'/=") {
				return true
			}
			if hasEmptyKeyOrOdd(vv) {
				return true
			}
		}
	case []interface{}:
		for _, vv := range x {
			if hasEmptyKeyOrOdd(vv) {
				return true
			}
		}
	}
	return false
}

func TestC07(t *testing.T) { runProp(t, "C07", genC07, checkC07) }
