package props

// C15 - decoders and string-argument APIs are total: errors are returned, never panics.

import (
	"bytes"
	"encoding/json"
	"encoding/xml"
	"fmt"
	"io"
	"reflect"
	"strings"
	"testing"
	"time"

	mxj "github.com/clbanning/mxj/v2"
	"pgregory.net/rapid"
)

type CaseC15 struct {
	Clause   string                 `json:"clause"`         // bytes | args
	Kind     string                 `json:"kind,omitempty"` // xml | json | gob
	Input    []byte                 `json:"input,omitempty"`
	Pristine bool                   `json:"pristine,omitempty"`
	Option   string                 `json:"option,omitempty"` // one non-default decoder option, or ""
	Map      map[string]interface{} `json:"map,omitempty"`
	Path     string                 `json:"path,omitempty"`
	Sub      string                 `json:"sub,omitempty"`
	Pair     string                 `json:"pair,omitempty"`
	NewVal   string                 `json:"new_val,omitempty"`
}

func init() { register("C15", checkC15) }

var xmlMutBytes = []byte{'<', '>', '/', '&', '"', ' ', 'a', 0xff, '!', '?', '-', ']', '[', '\'', '=', ':', 0}
var xmlInserts = []string{"</a>", "<b>", "<!--", "-->", "<?x", "?>", "<![CDATA[", "]]>", "&bogus;", "&#x0;", "<!D", "\xef\xbb\xbf", "<a:b:c/>", "<a b=c>", "<a b='1' b='2'/>", "</>", "<>", "&#xFFFFFFFF;", "<?xml version=\"1.0\" encoding=\"latin1\"?>"}
var xmlPrefixes = []string{"junk", "<!--c-->", "<?xml version=\"1.0\"?>", "<!DOCTYPE a>", " \n", "\xef\xbb\xbf", "</z>", "]]>"}

func mutateXML(t *rapid.T, doc []byte) []byte {
	b := append([]byte(nil), doc...)
	n := rapid.IntRange(0, 3).Draw(t, "nmut")
	for i := 0; i < n && len(b) > 0; i++ {
		pos := rapid.IntRange(0, len(b)-1).Draw(t, "pos")
		switch rapid.IntRange(0, 6).Draw(t, "mut") {
		case 6:
			// a near-miss of a name: the LAST '-' of the text becomes '_' (or the last '_' a '-', or the last upper-case
			// letter lower case) - start and end tag then differ only in what an option folds together
			swapped := false
			for j := len(b) - 1; j >= 0 && !swapped; j-- {
				switch {
				case b[j] == '-' && j+1 < len(b) && b[j+1] != '-' && b[j+1] != '>' && j > 0 && b[j-1] != '-' && b[j-1] != '!':
					b[j], swapped = '_', true
				case b[j] == '_':
					b[j], swapped = '-', true
				case b[j] >= 'A' && b[j] <= 'Z' && j > 0 && (b[j-1] == '/' || b[j-1] == ':'):
					b[j], swapped = b[j]+32, true
				}
			}
		case 0:
			b = b[:pos]
		case 1:
			b[pos] = rapid.SampledFrom(xmlMutBytes).Draw(t, "byte")
		case 2:
			ins := rapid.SampledFrom(xmlInserts).Draw(t, "ins")
			b = append(append(append([]byte(nil), b[:pos]...), ins...), b[pos:]...)
		case 3:
			b = append(append([]byte(nil), b[:pos]...), b[pos+1:]...)
		case 4:
			b = append([]byte(rapid.SampledFrom(xmlPrefixes).Draw(t, "pre")), b...)
		case 5:
			b = append(append([]byte(nil), b...), b[pos:]...)
		}
	}
	return b
}

// mutateBin: truncation and local corruption of a binary (gob) encoding.
func mutateBin(t *rapid.T, doc []byte) []byte {
	b := append([]byte(nil), doc...)
	n := rapid.IntRange(0, 3).Draw(t, "nmut")
	for i := 0; i < n && len(b) > 0; i++ {
		pos := rapid.IntRange(0, len(b)-1).Draw(t, "pos")
		switch rapid.IntRange(0, 5).Draw(t, "mut") {
		case 0:
			b = b[:pos]
		case 1:
			b[pos] ^= rapid.SampledFrom([]byte{0x01, 0x80, 0xff, 0x7f, 0x10}).Draw(t, "xor")
		case 2:
			b[pos] = rapid.SampledFrom([]byte{0x00, 0xff, 0x01, 0x7f, 0x80}).Draw(t, "set")
		case 3:
			b = append(append([]byte(nil), b[:pos]...), b[pos+1:]...)
		case 4:
			b = append(append(append([]byte(nil), b[:pos]...), b[pos]), b[pos:]...)
		case 5:
			b = append(append([]byte(nil), b...), b[pos:]...)
		}
	}
	return b
}

var argPieces = []string{"a", "b", "k", "list", "", ".", "..", "[", "]", "[0]", "[1]", "[-1]", "[99999999999]", "[2147483647]", "[2147483648]", "[4294967295]", "[4294967296]", "[9223372036854775806]", "[9223372036854775807]", "[9223372036854775808]", "[18446744073709551615]", "[18446744073709551616]", "[+1]", "[01]", "[1e3]", "[0x1]", "[x]", "[]", "*", ":", "::", "!", "!:", ":*", ":x", "x:", "-", "#text", " ", "a.b", "a[0", "0]", "|", ":bool", ":num", ":string", "true:bool", "1e999:num", "\x00", "é", "|1", "|*", "!|x", "|1|num", "1", "a|", "|", "::1", "!::*"}

func genArgString(t *rapid.T, label string) string {
	n := rapid.IntRange(0, 5).Draw(t, label+"n")
	var sb strings.Builder
	for i := 0; i < n; i++ {
		sb.WriteString(rapid.SampledFrom(argPieces).Draw(t, label))
	}
	return sb.String()
}

var decoderOptions = []string{"", "", "", "lower", "snake", "simple-as-map", "keep-spaces", "seq-num", "dec-escape", "cast", "cast", "cast-int", "cast-nobool-nofloat", "cast-naninf", "no-prefix", "key-prefix", "xmpp", "key-prefix-name", "attr-prefix-name"}

func genC15(t *rapid.T) CaseC15 {
	c := CaseC15{Clause: rapid.SampledFrom([]string{"bytes", "bytes", "args"}).Draw(t, "clause")}
	if c.Clause == "args" {
		g := VGen{Keys: []string{"a", "b", "k", "list", "", "-a", "#text", "a.b", "x[0]", "*"}, Nulls: true, StringGen: func(t *rapid.T, l string) string { return rapid.SampledFrom(scalarStrings).Draw(t, l) }}
		c.Map = g.Map(t, 3)
		c.Path, c.Sub, c.Pair, c.NewVal = genArgString(t, "path"), genArgString(t, "sub"), genArgString(t, "pair"), genArgString(t, "newval")
		if rapid.IntRange(0, 5).Draw(t, "empties") == 0 {
			// empty containers where a walker expects members: an empty list in a list, an empty map in a list, null members
			hostile := []interface{}{
				[]interface{}{[]interface{}{}}, []interface{}{[]interface{}{}, []interface{}{1.0}}, []interface{}{map[string]interface{}{}},
				[]interface{}{nil}, []interface{}{}, map[string]interface{}{}, []interface{}{[]interface{}{[]interface{}{}}}, []interface{}{map[string]interface{}{"b": []interface{}{}}},
				[]interface{}{nil, map[string]interface{}{"b": nil}}, nil,
			}
			for _, k := range []string{"a", "b", "list"} {
				if rapid.Bool().Draw(t, "hk") {
					c.Map[k] = deepCopy(hostile[rapid.IntRange(0, len(hostile)-1).Draw(t, "hv")])
				}
			}
		}
		if rapid.IntRange(0, 7).Draw(t, "widemap") == 0 {
			// a Map whose results outgrow the initial result capacity several times over, addressed by a path that matches
			var st []Step
			c.Map, st = boostWide(t)
			c.Path = pathString(st)
			if rapid.IntRange(0, 3).Draw(t, "widetail") == 0 {
				c.Path += genArgString(t, "tail")
			}
			c.Pair = c.Path + ":n.m"
		}
		c.Option = rapid.SampledFrom([]string{"", "", "", "attr-prefix-long", "no-prefix", "dot-notation", "separator", "separator-bar", "array-size"}).Draw(t, "qoption")
		return c
	}
	c.Kind = rapid.SampledFrom([]string{"xml", "xml", "xml", "json", "gob"}).Draw(t, "kind")
	var pristine []byte
	switch c.Kind {
	case "xml":
		g := XGen{Opts: defaultOpts(), MixedText: rapid.Bool().Draw(t, "mixed"), Extras: true, Namespaces: true}
		if rapid.IntRange(0, 2).Draw(t, "casttexts") == 0 {
			g.TextGen = genCastText
		}
		doc := g.Elem(t, 3)
		c.Option = rapid.SampledFrom(decoderOptions).Draw(t, "option")
		if c.Option == "key-prefix-name" || c.Option == "attr-prefix-name" {
			// a key or attribute prefix that may begin an XML name: elements (and attributes) named like the keys the decoders reserve
			reserved := []string{"_comment", "_directive", "_procinst", "_attr", "_text", "_seq", "_target", "_inst", "_id", "_"}
			doc.walk(func(e *XElem) {
				if rapid.IntRange(0, 3).Draw(t, "rename") == 0 {
					e.Prefix, e.Local = "", rapid.SampledFrom(reserved).Draw(t, "reserved")
				}
				for i := range e.Attrs {
					if e.Attrs[i].Prefix == "" && e.Attrs[i].Local != "xmlns" && rapid.IntRange(0, 5).Draw(t, "renameattr") == 0 {
						e.Attrs[i].Local = rapid.SampledFrom(reserved).Draw(t, "reservedattr") + fmt.Sprint(i)
					}
				}
			})
		}
		pristine = []byte(rapid.SampledFrom([]string{"", "", "<?xml version=\"1.0\"?>", "<!-- c -->", "\xef\xbb\xbf", "\n"}).Draw(t, "prolog") + doc.String())
		c.Input = mutateXML(t, pristine)
	case "json":
		pristine, _ = json.Marshal(genJMap(t, 2))
		c.Input = mutateJSON(t, pristine)
	default:
		g := VGen{Keys: xmlKeyNames, Nulls: false}
		m := g.Map(t, 2)
		pristine, _ = mxj.Map(m).Gob()
		if rapid.Bool().Draw(t, "binmut") {
			c.Input = mutateBin(t, pristine)
		} else {
			c.Input = mutateXML(t, pristine)
		}
	}
	c.Pristine = bytes.Equal(pristine, c.Input)
	return c
}

// refAcceptsXML: does the strict standard tokenizer accept the first document (through the end of its root)?
func refAcceptsXML(b []byte) (bool, string) {
	d := xml.NewDecoder(bytes.NewReader(b))
	depth := 0
	for {
		tok, err := d.Token()
		if err != nil {
			return false, err.Error()
		}
		switch tok.(type) {
		case xml.StartElement:
			depth++
		case xml.EndElement:
			depth--
			if depth == 0 {
				return true, ""
			}
		}
	}
}

// refSeqOutcome: ok / noroot / err for the sequence decoder (RawToken plus its own nesting check).
func refSeqOutcome(b []byte) (string, string) {
	d := xml.NewDecoder(bytes.NewReader(b))
	var stack []string
	for {
		tok, err := d.RawToken()
		if err != nil {
			return "err", err.Error()
		}
		switch tt := tok.(type) {
		case xml.StartElement:
			stack = append(stack, tt.Name.Space+":"+tt.Name.Local)
		case xml.EndElement:
			if len(stack) == 0 {
				return "err", "stray end tag"
			}
			if stack[len(stack)-1] != tt.Name.Space+":"+tt.Name.Local {
				return "err", "mismatched end tag"
			}
			stack = stack[:len(stack)-1]
			if len(stack) == 0 {
				return "ok", ""
			}
		case xml.Comment, xml.Directive, xml.ProcInst:
			if len(stack) == 0 {
				return "noroot", ""
			}
		}
	}
}

func applyDecoderOption(opt string) {
	switch opt {
	case "lower":
		mxj.CoerceKeysToLower(true)
	case "snake":
		mxj.CoerceKeysToSnakeCase(true)
	case "simple-as-map":
		mxj.DecodeSimpleValuesAsMap(true)
	case "keep-spaces":
		mxj.DisableTrimWhiteSpace(true)
	case "seq-num":
		mxj.IncludeTagSeqNum(true)
	case "dec-escape":
		mxj.XMLEscapeCharsDecoder(true)
	case "no-prefix":
		mxj.SetAttrPrefix("")
	case "key-prefix":
		mxj.SetGlobalKeyMapPrefix("$")
	case "key-prefix-name":
		mxj.SetGlobalKeyMapPrefix("_")
	case "attr-prefix-name":
		mxj.SetAttrPrefix("_")
	case "xmpp":
		mxj.HandleXMPPStreamTag(true)
	case "attr-prefix-long":
		mxj.SetAttrPrefix("attr_")
	case "dot-notation":
		mxj.LeafUseDotNotation(true)
	case "separator":
		mxj.SetFieldSeparator("::")
	case "separator-bar":
		mxj.SetFieldSeparator("|")
	case "array-size":
		mxj.SetArraySize(33)
	case "cast-int":
		mxj.CastValuesToInt(true)
	case "cast-nobool-nofloat":
		mxj.CastValuesToFloat(false)
		mxj.CastValuesToBool(false)
	case "cast-naninf":
		mxj.CastNanInf(true)
	}
}

func useMap(m mxj.Map) {
	m.Xml()
	m.XmlIndent("", " ")
	m.Json()
	m.LeafNodes()
	m.LeafPaths()
}

func checkC15(c CaseC15, info *Info) *Failure {
	// watchdog: a single case normally costs well under a millisecond
	done := make(chan *Failure, 1)
	inner := &Info{}
	go func() { done <- safely(checkC15inner, c, inner) }()
	select {
	case f := <-done:
		*info = *inner
		return f
	case <-time.After(60 * time.Second):
		return failf("hang", "no result after 60s for case %s", canon(c))
	}
}

func checkC15inner(c CaseC15, info *Info) *Failure {
	defer resetOptions()
	info.Class("clause " + c.Clause)
	if c.Clause == "args" {
		return checkC15args(c, info)
	}
	b := c.Input
	info.Class("kind:" + c.Kind)
	switch c.Kind {
	case "xml":
		applyDecoderOption(c.Option)
		info.ClassIf(c.Option != "", "non-default decoder option")
		acc, why := refAcceptsXML(b)
		m, err := mxj.NewMapXml(b, strings.HasPrefix(c.Option, "cast"))
		if c.Option == "xmpp" && bytes.Contains(bytes.ToLower(b), []byte("stream")) {
			// HandleXMPPStreamTag: the <stream> start tag of an XMPP session is returned as a document of its own - it is
			// never closed while the session lasts. Accept/reject is not compared for such input (totality still is).
			info.Unspecified("XMPP stream start tag under HandleXMPPStreamTag (documented early return)")
		} else if acc != (err == nil) {
			return failf("accept-reject-mismatch", "NewMapXml(%q) option %q: the standard tokenizer accepts=%v (%s), mxj error=%v", b, c.Option, acc, why, err)
		}
		if err != nil && m != nil {
			return failf("partial-map-with-error", "NewMapXml(%q) returned %v together with error %v", b, m, err)
		}
		if err == nil {
			useMap(m)
			// the reader forms see the same first document
			m2, rerr := mxj.NewMapXmlReader(bytes.NewReader(b), strings.HasPrefix(c.Option, "cast"))
			if rerr != nil || !valEqual(map[string]interface{}(m), map[string]interface{}(m2)) {
				return failf("reader-differs", "NewMapXmlReader(%q) = %v,%v; NewMapXml = %v", b, m2, rerr, m)
			}
		}
		for _, mk := range []func(io.Reader) error{
			func(r io.Reader) error { m, e := mxj.NewMapXmlReader(r); checkNil(m, e); return e },
			func(r io.Reader) error { m, _, e := mxj.NewMapXmlReaderRaw(r); checkNil(m, e); return e },
			func(r io.Reader) error {
				m, e := mxj.NewMapXmlSeqReader(r)
				if e == mxj.NoRoot {
					return nil
				}
				checkNil(mxj.Map(m), e)
				return e
			},
			func(r io.Reader) error {
				m, _, e := mxj.NewMapXmlSeqReaderRaw(r)
				if e == mxj.NoRoot {
					return nil
				}
				checkNil(mxj.Map(m), e)
				return e
			},
		} {
			r := bytes.NewReader(b)
			for i := 0; i < 5; i++ {
				if mk(r) != nil {
					break
				}
			}
		}
		calls := 0
		mxj.HandleXmlReader(bytes.NewReader(b), func(m mxj.Map) bool { calls++; useMap(m); return calls < 5 }, func(error) bool { return false })
		calls = 0
		mxj.HandleXmlReaderRaw(bytes.NewReader(b), func(m mxj.Map, r []byte) bool { calls++; return calls < 5 }, func(error, []byte) bool { return false })
		mxj.BeautifyXml(b, "", " ")
		if fm, ferr := mxj.NewMapFormattedXmlSeq(b); ferr == nil {
			fm.Xml()
		}
		st, swhy := refSeqOutcome(b)
		ms, serr := mxj.NewMapXmlSeq(b, strings.HasPrefix(c.Option, "cast"))
		if c.Option == "xmpp" && bytes.Contains(bytes.ToLower(b), []byte("stream")) {
			// (the documented early return at an XMPP <stream:stream> start tag, as for NewMapXml above)
			info.Unspecified("XMPP stream start tag under HandleXMPPStreamTag (documented early return)")
			st = "unjudged"
			if serr == nil {
				ms.Xml()
			}
		}
		switch st {
		case "unjudged":
		case "ok":
			if serr != nil {
				return failf("accept-reject-mismatch", "NewMapXmlSeq(%q) option %q: RawToken stream is fine, mxj error %v", b, c.Option, serr)
			}
			if _, e := ms.Xml(); e != nil && strings.Contains(e.Error(), "panic") {
				return failf("encode-error", "%v", e)
			}
			ms.XmlIndent("", " ")
		case "noroot":
			if serr != mxj.NoRoot {
				return failf("accept-reject-mismatch", "NewMapXmlSeq(%q): leading comment/directive/PI, expected NoRoot, got %v", b, serr)
			}
		default:
			if serr == nil || serr == mxj.NoRoot {
				return failf("accept-reject-mismatch", "NewMapXmlSeq(%q) option %q: reference rejects (%s), mxj returned %v,%v", b, c.Option, swhy, ms, serr)
			}
			if ms != nil {
				return failf("partial-map-with-error", "NewMapXmlSeq(%q) returned %v together with error %v", b, ms, serr)
			}
		}
		info.ClassIf(acc, "accepted by the reference")
		info.ClassIf(!acc, "rejected by the reference")
		if acc && !c.Pristine {
			info.Class("mutated but still accepted")
		}
		info.NonTrivial(!c.Pristine)
	case "json":
		// accept/reject and value must be those of encoding/json on the first value (the C06 differential)
		if f := checkC06(CaseC06{Clause: "diff", Input: b}, &Info{}); f != nil {
			return f
		}
		m, err := mxj.NewMapJson(b)
		if err == nil {
			useMap(m)
			m.Copy()
		} else if len(m) > 0 {
			return failf("partial-map", "NewMapJson(%q) returned the partial Map %#v together with the error %v", b, m, err)
		}
		for _, raw := range []bool{false, true} {
			r := bytes.NewReader(b)
			for i := 0; i < 5; i++ {
				var e error
				var mm mxj.Map
				if raw {
					mm, _, e = mxj.NewMapJsonReaderRaw(r)
				} else {
					mm, e = mxj.NewMapJsonReader(r)
				}
				if e != nil {
					if len(mm) > 0 {
						return failf("partial-map", "NewMapJsonReader (raw=%v) on %q returned the partial Map %#v together with the error %v", raw, b, mm, e)
					}
					break
				}
				useMap(mm)
			}
		}
		// a document with a number that float64 cannot hold is well-formed for the scanner and fails in the decoder
		if i := bytes.IndexByte(b, ':'); i > 0 && c.Pristine {
			big := append(append(append([]byte(nil), b[:i+1]...), "1e999,\"zz\":"...), b[i+1:]...)
			if bm, berr := mxj.NewMapJson(big); berr != nil && len(bm) > 0 {
				return failf("partial-map", "NewMapJson(%q) returned the partial Map %#v together with the error %v", big, bm, berr)
			}
		}
		calls := 0
		mxj.HandleJsonReader(bytes.NewReader(b), func(m mxj.Map) bool { calls++; return calls < 5 }, func(error) bool { return false })
		calls = 0
		mxj.HandleJsonReaderRaw(bytes.NewReader(b), func(m mxj.Map, r []byte) bool { calls++; return calls < 5 }, func(error, []byte) bool { return false })
		info.NonTrivial(!c.Pristine)
	case "gob":
		m, err := mxj.NewMapGob(b)
		if err == nil {
			useMap(m)
		} else if len(m) > 0 {
			return failf("partial-map", "NewMapGob(%x) returned the partial Map %s together with the error %v", b, canon(map[string]interface{}(m)), err)
		}
		if c.Pristine && err != nil {
			return failf("gob-rejected", "NewMapGob of a Gob() encoding failed: %v", err)
		}
		info.NonTrivial(!c.Pristine)
	}
	return nil
}

func checkNil(m mxj.Map, err error) {
	if err != nil && err != io.EOF && m != nil {
		panic(fmt.Sprintf("partial map %v returned together with error %v", m, err))
	}
	if err == nil {
		useMap(m)
	}
}

var cleanArg = func(s string) bool {
	for _, seg := range strings.Split(s, ".") {
		if seg == "" || strings.ContainsAny(seg, "[]:!* \x00") {
			return false
		}
	}
	return true
}

func checkC15args(c CaseC15, info *Info) *Failure {
	if c.Map == nil {
		c.Map = map[string]interface{}{}
	}
	applyDecoderOption(c.Option)
	info.ClassIf(c.Option != "", "non-default query option")
	m := mxj.Map(copyMap(c.Map))
	m.ValuesForPath(c.Path)
	m.ValuesForPath(c.Path, c.Sub)
	m.ValuesForPath(c.Path, c.Sub, c.Pair)
	m.ValuesForKey(c.Path)
	m.ValuesForKey(c.Path, c.Sub)
	m.ValueForKey(c.Path, c.Sub)
	m.ValueForPath(c.Path)
	m.ValueForPathString(c.Path)
	m.ValueOrEmptyForPathString(c.Path)
	m.Exists(c.Path)
	m.Exists(c.Path, c.Sub)
	m.PathsForKey(c.Path)
	m.PathForKeyShortest(c.Path)
	m.Elements(c.Path)
	m.Attributes(c.Path)
	m.NewMap(c.Pair)
	m.NewMap(c.Pair, c.Path, c.Sub)
	m.LeafNodes()
	m.LeafNodes(true)
	m.LeafPaths()
	m.LeafPaths(true)
	m.LeafValues()
	m.LeafValues(true)
	m.Root()
	m.StringIndent()
	if !reflect.DeepEqual(map[string]interface{}(m), c.Map) {
		return failf("query-modified-map", "a query with path %q sub %q pair %q changed %s into %s", c.Path, c.Sub, c.Pair, canon(c.Map), canon(m))
	}
	type mut struct {
		name string
		f    func(mxj.Map) error
	}
	for _, mu := range []mut{
		{"UpdateValuesForPath(string)", func(x mxj.Map) error { _, e := x.UpdateValuesForPath(c.NewVal, c.Path, c.Sub); return e }},
		{"UpdateValuesForPath(sub as newVal)", func(x mxj.Map) error { _, e := x.UpdateValuesForPath(c.Sub, c.Path); return e }},
		{"UpdateValuesForPath(map)", func(x mxj.Map) error {
			_, e := x.UpdateValuesForPath(map[string]interface{}{c.Pair: "v"}, c.Path, c.Sub)
			return e
		}},
		{"SetValueForPath", func(x mxj.Map) error { return x.SetValueForPath("v", c.Path) }},
		{"RenameKey", func(x mxj.Map) error { return x.RenameKey(c.Path, c.Pair) }},
		{"Remove", func(x mxj.Map) error { return x.Remove(c.Path) }},
	} {
		x := mxj.Map(copyMap(c.Map))
		if err := mu.f(x); err != nil && !reflect.DeepEqual(map[string]interface{}(x), c.Map) {
			return failf("modified-on-error", "%s path %q sub %q pair %q newval %q returned %v but changed %s into %s", mu.name, c.Path, c.Sub, c.Pair, c.NewVal, err, canon(c.Map), canon(x))
		}
	}
	hostile := !cleanArg(c.Path) || (c.Sub != "" && strings.Count(c.Sub, ":") != 1) || !cleanArg(c.Pair)
	info.ClassIf(hostile, "argument outside the clean grammar")
	info.ClassIf(hasKeyNamed(c.Map, ""), "Map with an empty key")
	info.NonTrivial(hostile)
	return nil
}

func TestC15(t *testing.T) { runProp(t, "C15", genC15, checkC15) }
