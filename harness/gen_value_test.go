package props

// JSON-shaped values for the encoder properties (C03, C06, C16, C19).

import (
	"math"

	"pgregory.net/rapid"
)

var xmlKeyNames = []string{"a", "b", "c", "d", "k1", "k2", "item", "x-y", "Z"}

// incl. the boundaries where %v / strconv switch to exponent form, the largest exact integer, a denormal and the extremes
var someFloats = []float64{0, math.Copysign(0, -1), 0, 1, -1, 0.5, 3.14159, 1e21, 1e-7, 123456789, -2.5e-3, 1e6, 100, 1e20, 123456789012345680000, 1e-6, 1e-5, 9007199254740992, 9007199254740993, 5e-324, 1.7976931348623157e308, -1e21, 0.1, 1.0000000000000002,
	// whole numbers between 2^53 and 2^63 (written as plain integer literals by encoding/json, yet float64 values), and just beyond
	1e16, 1e18, 1152921504606846976, 1234567890123456789, -1e17, 9223372036854775808, 18446744073709551615, 1e19}

// VGen controls the value generator.
type VGen struct {
	Keys      []string
	Attrs     bool // '-k' scalar entries and '#text' scalar entries
	Nulls     bool
	StringGen func(t *rapid.T, label string) string
}

func (g VGen) str(t *rapid.T, label string) string {
	if g.StringGen != nil {
		return g.StringGen(t, label)
	}
	return genText(t, label)
}

func (g VGen) Scalar(t *rapid.T) interface{} {
	switch rapid.IntRange(0, 6).Draw(t, "skind") {
	case 0:
		if g.Nulls {
			return nil
		}
		return "n"
	case 1:
		return rapid.Bool().Draw(t, "b")
	case 2:
		return rapid.SampledFrom(someFloats).Draw(t, "f")
	case 3:
		return float64(rapid.IntRange(-1000, 1000).Draw(t, "i"))
	case 4:
		return ""
	}
	return g.str(t, "s")
}

func (g VGen) nonNullScalar(t *rapid.T) interface{} {
	s := g.Scalar(t)
	if s == nil {
		return "x"
	}
	return s
}

func (g VGen) Value(t *rapid.T, depth int) interface{} {
	k := rapid.IntRange(0, 9).Draw(t, "vkind")
	if depth <= 0 && k > 5 {
		k = 0
	}
	switch {
	case k <= 5:
		return g.Scalar(t)
	case k <= 7:
		return g.Map(t, depth-1)
	default:
		n := rapid.IntRange(0, 3).Draw(t, "ln")
		l := make([]interface{}, n)
		for i := range l {
			l[i] = g.Value(t, depth-1)
		}
		return l
	}
}

func (g VGen) Map(t *rapid.T, depth int) map[string]interface{} {
	m := map[string]interface{}{}
	n := rapid.IntRange(0, 4).Draw(t, "mn")
	for i := 0; i < n; i++ {
		k := rapid.SampledFrom(g.Keys).Draw(t, "key")
		ek := 5
		if g.Attrs {
			ek = rapid.IntRange(0, 9).Draw(t, "ekind")
		}
		switch ek {
		case 0:
			m["-"+k] = g.nonNullScalar(t)
		case 1:
			m["#text"] = g.nonNullScalar(t)
		default:
			m[k] = g.Value(t, depth)
		}
	}
	return m
}
