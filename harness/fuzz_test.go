package props

// Native coverage-guided fuzz targets (thorough tier). The oracles are the plain check
// functions of C15 and C06, so a crasher is a violation of those properties.

import (
	"testing"

	mxj "github.com/clbanning/mxj/v2"
	"pgregory.net/rapid"
)

func fuzzFail(t *testing.T, prop string, f *Failure, c interface{}) {
	if f == nil {
		return
	}
	if id := matchKnown(prop, f, c); id != "" {
		return
	}
	t.Fatalf("%s %s: %s", prop, f.Kind, f.Msg)
}

func FuzzXML(f *testing.F) {
	for _, s := range []string{
		`<a x="1" y="2"><b>1</b><!--c--><c/><b q="&lt;">2</b><?pi inst?><!DIR z><ns:d xmlns:ns="u" ns:k="v"/></a>`,
		`<a>text<b>1</b></a>`, `</a>`, `<a><![CDATA[x]]></a>`, `<?xml version="1.0"?><a/>`, `<!--c--><a/>`, "\xef\xbb\xbf<a/>", `junk<a/>`, `<a b=""/>`,
		`<stream:stream x="1"><a/></stream:stream>`, `<a><b>1</b><b>2</b></a><c/>`,
	} {
		f.Add([]byte(s), uint8(0))
	}
	f.Fuzz(func(t *testing.T, b []byte, opt uint8) {
		c := CaseC15{Clause: "bytes", Kind: "xml", Input: b, Option: decoderOptions[int(opt)%len(decoderOptions)]}
		fuzzFail(t, "C15", safely(checkC15inner, c, &Info{}), c)
	})
}

func FuzzJSON(f *testing.F) {
	for _, s := range []string{`{"a":1}`, `}`, `[1,2]`, `{"a":"x\\"} {"b":"}"}`, `{"":{"":1}}`, ` {"a":[{"b":null}]}`, `{"a":1e999}`, `[1] x`, `null`, `{"a":"<"}`, "{\"a\":\"\xff\"}"} {
		f.Add([]byte(s), false)
	}
	f.Fuzz(func(t *testing.T, b []byte, useNumber bool) {
		c := CaseC15{Clause: "bytes", Kind: "json", Input: b}
		fuzzFail(t, "C15", safely(checkC15inner, c, &Info{}), c)
		d := CaseC06{Clause: "diff", Input: b, UseNumber: useNumber}
		fuzzFail(t, "C06", safely(checkC06, d, &Info{}), d)
		g := CaseC15{Clause: "bytes", Kind: "gob", Input: b}
		fuzzFail(t, "C15", safely(checkC15inner, g, &Info{}), g)
	})
}

func FuzzArgs(f *testing.F) {
	f.Add("a.b[0].c", "k:v", "a:b", "k:1:num", `{"a":{"b":[{"c":1,"k":"v"},{"c":2}]},"":{"":1}}`)
	f.Add("a[-1]", ":x", ":", "", `{"a":[1,2]}`)
	f.Add("*.*[1]", "!k:*", "a.b:c.d", "a:b:c", `{"a":{"b":[[1],[2]]}}`)
	f.Add("*", "a:*", "*", "*:1", `{"*":{"*":1},"a":{"*":[{"a":1}]}}`)
	f.Fuzz(func(t *testing.T, path, sub, pair, newval, js string) {
		m, err := mxj.NewMapJson([]byte(js))
		if err != nil || m == nil {
			return
		}
		c := CaseC15{Clause: "args", Map: m, Path: path, Sub: sub, Pair: pair, NewVal: newval}
		fuzzFail(t, "C15", safely(checkC15inner, c, &Info{}), c)
	})
}

// ---- coverage-guided exploration of the structured generators (rapid.MakeFuzz): the fuzzer's bytes
// drive the same generators as the property tests, the oracle is the same check function.

func rapidFuzz[C any](prop string, gen func(*rapid.T) C, check func(C, *Info) *Failure) func(*testing.T, []byte) {
	return rapid.MakeFuzz(func(rt *rapid.T) {
		c := gen(rt)
		noise()
		f := safely(check, c, &Info{})
		if f == nil {
			return
		}
		if id := matchKnown(prop, f, c); id != "" {
			return
		}
		rt.Fatalf("%s %s: %s\ncase: %s", prop, f.Kind, f.Msg, mustJSON(c))
	})
}

func FuzzGenC01(f *testing.F) { f.Fuzz(rapidFuzz("C01", genC01, checkC01)) }
func FuzzGenC04(f *testing.F) { f.Fuzz(rapidFuzz("C04", genC04, checkC04)) }
func FuzzGenC07(f *testing.F) { f.Fuzz(rapidFuzz("C07", genC07, checkC07)) }
func FuzzGenC10(f *testing.F) { f.Fuzz(rapidFuzz("C10", genC10, checkC10)) }
func FuzzGenC13(f *testing.F) { f.Fuzz(rapidFuzz("C13", genC13, checkC13)) }
