package props

// C19 - Maps written to files, gob or Copy are read back equal.

import (
	"bytes"
	"fmt"
	"os"
	"path/filepath"
	"reflect"
	"strings"
	"testing"

	mxj "github.com/clbanning/mxj/v2"
	"pgregory.net/rapid"
)

type CaseC19 struct {
	Kind   string                   `json:"kind"` // json | xml
	JDocs  []map[string]interface{} `json:"jdocs,omitempty"`
	XDocs  []*XElem                 `json:"xdocs,omitempty"`
	Indent bool                     `json:"indent"`
	Prefix string                   `json:"prefix"`
	Ind    string                   `json:"ind"`
	Safe   bool                     `json:"safe"`
	Damage string                   `json:"damage"` // none | truncate | corrupt | missing | directory
	At     int                      `json:"at"`     // offset (taken modulo the file length)
	Byte   byte                     `json:"byte"`
	Stale  bool                     `json:"stale,omitempty"` // the file exists before the write, with longer content
	GobMap map[string]interface{}   `json:"gob_map,omitempty"`
	Huge   int                      `json:"huge,omitempty"`    // > 0: document HugeAt gets a string of that many bytes (a document longer than 64 KiB)
	HugeAt int                      `json:"huge_at,omitempty"` // expanded at check time
}

func init() { register("C19", checkC19) }

func genC19(t *rapid.T) CaseC19 {
	c := CaseC19{Kind: rapid.SampledFrom([]string{"json", "xml"}).Draw(t, "kind")}
	n := rapid.IntRange(1, 6).Draw(t, "n")
	for i := 0; i < n; i++ {
		if c.Kind == "json" {
			c.JDocs = append(c.JDocs, genJSONObj(t, 2))
		} else {
			g := XGen{Opts: defaultOpts(), MixedText: true, Namespaces: true}
			d := g.Elem(t, 2)
			if rapid.IntRange(0, 5).Draw(t, "reservedroot") == 0 {
				// a document whose own root has one of the names the encoders use as default tags
				d.Prefix, d.Local = "", rapid.SampledFrom([]string{"doc", "doc", "element", "object"}).Draw(t, "rootname")
			}
			c.XDocs = append(c.XDocs, d)
		}
	}
	c.Indent = rapid.Bool().Draw(t, "indent")
	blanks := []string{"", " ", "  ", "\t"}
	c.Prefix = rapid.SampledFrom(blanks).Draw(t, "prefix")
	c.Ind = rapid.SampledFrom(blanks).Draw(t, "ind")
	c.Safe = rapid.Bool().Draw(t, "safe")
	c.Stale = rapid.Bool().Draw(t, "stale")
	c.Damage = rapid.SampledFrom([]string{"none", "none", "truncate", "truncate", "corrupt", "missing", "directory", "bad-document"}).Draw(t, "damage")
	c.At = rapid.IntRange(0, 100000).Draw(t, "at")
	c.Byte = rapid.SampledFrom([]byte{'<', '>', '{', '}', '"', '\\', ' ', 0, 0xff, 'x', '/', '&', '[', 0, 1, 0x0b, 0x1f}).Draw(t, "byte")
	g := VGen{Keys: xmlKeyNames, Nulls: false, StringGen: func(t *rapid.T, l string) string { return genJSONString(t) }}
	c.GobMap = g.Map(t, 3)
	if rapid.IntRange(0, 39).Draw(t, "huge") == 17 {
		c.Huge = rapid.SampledFrom([]int{65536, 70000, 140000}).Draw(t, "hugesize")
		c.HugeAt = rapid.IntRange(0, n-1).Draw(t, "hugeat")
	}
	return c
}

// gobEqual: deep equality up to gob's own convention of decoding an empty list or map as a nil one.
func gobEqual(a, b interface{}) bool {
	switch x := a.(type) {
	case map[string]interface{}:
		y, ok := b.(map[string]interface{})
		if !ok || len(x) != len(y) {
			return false
		}
		for k, v := range x {
			w, ok := y[k]
			if !ok || !gobEqual(v, w) {
				return false
			}
		}
		return true
	case []interface{}:
		y, ok := b.([]interface{})
		if !ok || len(x) != len(y) {
			return false
		}
		for i := range x {
			if !gobEqual(x[i], y[i]) {
				return false
			}
		}
		return true
	}
	return reflect.DeepEqual(a, b)
}

type span struct{ start, end int } // non-blank extent of a document inside the file

func depth2(v interface{}, d int) bool {
	switch x := v.(type) {
	case map[string]interface{}:
		if d >= 2 {
			return true
		}
		for _, vv := range x {
			if depth2(vv, d+1) {
				return true
			}
		}
	case []interface{}:
		for _, vv := range x {
			if depth2(vv, d) {
				return true
			}
		}
	}
	return false
}

func checkC19(c CaseC19, info *Info) *Failure {
	defer resetOptions()
	bystanders()
	scratch := os.Getenv("VERIF_SCRATCH")
	if scratch == "" {
		scratch = os.TempDir()
	}
	dir, err := os.MkdirTemp(scratch, "c19-")
	if err != nil {
		return failf("harness-io", "%v", err)
	}
	defer os.RemoveAll(dir)
	fn := filepath.Join(dir, "maps."+c.Kind)
	if c.Huge > 0 {
		// one document is longer than 64 KiB (and so is the gob/copy subject)
		pad := strings.Repeat("p", c.Huge)
		if c.Kind == "json" && len(c.JDocs) > 0 {
			docs := append([]map[string]interface{}(nil), c.JDocs...)
			d := copyMap(docs[c.HugeAt%len(docs)])
			d["pad"] = pad
			docs[c.HugeAt%len(docs)] = d
			c.JDocs = docs
		} else if len(c.XDocs) > 0 {
			docs := append([]*XElem(nil), c.XDocs...)
			d := *docs[c.HugeAt%len(docs)]
			d.Attrs = append(append([]XAttr(nil), d.Attrs...), XAttr{Local: "pad", Value: pad})
			docs[c.HugeAt%len(docs)] = &d
			c.XDocs = docs
		}
		if c.GobMap != nil {
			g := copyMap(c.GobMap)
			g["pad"] = pad
			c.GobMap = g
		}
		info.Class("a document longer than 64 KiB")
	}
	info.Class("kind:" + c.Kind)
	info.Class("damage:" + c.Damage)

	// gob and Copy symmetry
	if c.GobMap != nil {
		orig := mxj.Map(copyMap(c.GobMap))
		gb, gerr := orig.Gob()
		if gerr != nil {
			return failf("gob-error", "Gob() of %s: %v", canon(c.GobMap), gerr)
		}
		back, berr := mxj.NewMapGob(gb)
		if berr != nil || !gobEqual(map[string]interface{}(back), c.GobMap) {
			return failf("gob-mismatch", "NewMapGob(Gob(%s)) = %#v,%v", canon(c.GobMap), back, berr)
		}
		cp, cerr := orig.Copy()
		if cerr != nil || !reflect.DeepEqual(map[string]interface{}(cp), c.GobMap) {
			return failf("copy-mismatch", "Copy(%s) = %#v,%v", canon(c.GobMap), cp, cerr)
		}
		if !reflect.DeepEqual(map[string]interface{}(orig), c.GobMap) {
			return failf("receiver-modified", "Gob/Copy changed the Map")
		}
		// an encoding returned earlier stays valid while other Maps are encoded (sequence of calls)
		other := mxj.Map{"z": "second", "y": []interface{}{"q"}}
		keepG := append([]byte(nil), gb...)
		jb1, _ := orig.Json()
		keepJ := append([]byte(nil), jb1...)
		xb1, xerr1 := orig.Xml()
		keepX := append([]byte(nil), xb1...)
		for i := 0; i < 2; i++ {
			other.Gob()
			other.Json()
			other.Xml()
			other.XmlIndent("", " ")
		}
		if !bytes.Equal(gb, keepG) || !bytes.Equal(jb1, keepJ) || (xerr1 == nil && !bytes.Equal(xb1, keepX)) {
			return failf("result-overwritten-by-later-call", "a byte slice returned by Gob/Json/Xml changed when another Map was encoded afterwards")
		}
		back2, berr2 := mxj.NewMapGob(gb)
		if berr2 != nil || !gobEqual(map[string]interface{}(back2), c.GobMap) {
			return failf("gob-mismatch", "NewMapGob of an earlier Gob() result after later Gob() calls = %#v,%v want %s", back2, berr2, canon(c.GobMap))
		}
	}

	var ms mxj.Maps
	var want []map[string]interface{} // what each document must be read back as
	var texts [][]byte                // each document's own encoding
	if c.Kind == "json" {
		for _, d := range c.JDocs {
			if len(d) == 0 {
				info.Skip = "empty JSON object (dropped by the readers by design)"
				return nil
			}
			ms = append(ms, mxj.Map(copyMap(d)))
			want = append(want, d)
		}
	} else {
		mxj.XMLEscapeChars(true)
		for _, e := range c.XDocs {
			m, derr := mxj.NewMapXml([]byte(e.String()))
			if derr != nil {
				return failf("decode-error", "%v", derr)
			}
			ms = append(ms, m)
		}
	}
	if len(ms) == 0 {
		info.Skip = "empty case"
		return nil
	}
	for _, m := range ms {
		var own []byte
		var oerr error
		switch {
		case c.Kind == "json" && c.Indent:
			own, oerr = m.JsonIndent(c.Prefix, c.Ind, c.Safe)
		case c.Kind == "json":
			own, oerr = m.Json(c.Safe)
		case c.Indent:
			own, oerr = m.XmlIndent(c.Prefix, c.Ind)
		default:
			own, oerr = m.Xml()
		}
		if oerr != nil {
			return failf("encode-error", "%v", oerr)
		}
		texts = append(texts, own)
		if c.Kind == "xml" {
			w, derr := mxj.NewMapXml(own)
			if derr != nil {
				return failf("decode-error", "own encoding %q: %v", own, derr)
			}
			want = append(want, w)
		}
	}
	if c.Stale {
		// an earlier, longer version of the file: a rewrite must replace it completely
		old := strings.Repeat(`{"old":"document"}`+"\n<old>document</old>\n", 400)
		if werr := os.WriteFile(fn, []byte(old), 0o644); werr != nil {
			return failf("harness-io", "%v", werr)
		}
		info.Class("file existed with longer content")
	}
	switch {
	case c.Kind == "json" && c.Indent:
		err = ms.JsonFileIndent(fn, c.Prefix, c.Ind, c.Safe)
	case c.Kind == "json":
		err = ms.JsonFile(fn, c.Safe)
	case c.Indent:
		err = ms.XmlFileIndent(fn, c.Prefix, c.Ind)
	default:
		err = ms.XmlFile(fn)
	}
	if err != nil {
		return failf("write-error", "%v", err)
	}
	data, _ := os.ReadFile(fn)
	// locate the documents in the file
	var spans []span
	pos := 0
	for i, tx := range texts {
		core := bytes.TrimSpace(tx)
		at := bytes.Index(data[pos:], core)
		if at < 0 {
			return failf("file-content", "document %d (%q) not found in the file %q", i, core, data)
		}
		spans = append(spans, span{pos + at, pos + at + len(core)})
		pos = pos + at + len(core)
	}
	read := func(name string) ([]map[string]interface{}, [][]byte, error, error) {
		var plain mxj.Maps
		var raws []mxj.MapRaw
		var e1, e2 error
		if c.Kind == "json" {
			plain, e1 = mxj.NewMapsFromJsonFile(name)
			raws, e2 = mxj.NewMapsFromJsonFileRaw(name)
		} else {
			plain, e1 = mxj.NewMapsFromXmlFile(name)
			raws, e2 = mxj.NewMapsFromXmlFileRaw(name)
		}
		var out []map[string]interface{}
		for _, m := range plain {
			out = append(out, m)
		}
		var rb [][]byte
		if len(raws) != len(plain) {
			return out, nil, fmt.Errorf("raw variant returned %d Maps, plain variant %d (errors %v / %v)", len(raws), len(plain), e2, e1), e2
		}
		for i, r := range raws {
			if !reflect.DeepEqual(map[string]interface{}(r.M), out[i]) {
				return out, nil, fmt.Errorf("raw variant Map %d differs from the plain variant", i), e2
			}
			rb = append(rb, r.R)
		}
		return out, rb, e1, e2
	}
	switch c.Damage {
	case "missing":
		_, _, e1, e2 := read(filepath.Join(dir, "no-such-file"))
		if e1 == nil || e2 == nil {
			return failf("unreadable-file-no-error", "reading a missing file returned errors %v / %v", e1, e2)
		}
		info.NonTrivial(len(ms) >= 2)
		return nil
	case "directory":
		_, _, e1, e2 := read(dir)
		if e1 == nil || e2 == nil {
			return failf("unreadable-file-no-error", "reading a directory returned errors %v / %v", e1, e2)
		}
		info.NonTrivial(len(ms) >= 2)
		return nil
	}
	expectN, expectErr := len(ms), false
	at := 0
	if len(data) > 0 {
		at = c.At % (len(data) + 1)
	}
	switch c.Damage {
	case "truncate":
		data = data[:at]
		expectN = 0
		for _, s := range spans {
			if s.end <= at {
				expectN++
			} else if s.start < at {
				expectErr = true
			}
		}
		if werr := os.WriteFile(fn, data, 0o644); werr != nil {
			return failf("harness-io", "%v", werr)
		}
	case "bad-document":
		// a document that cannot be decoded is inserted at a document boundary: the Maps before it, and an error
		j := c.At % (len(spans) + 1)
		cut := len(data)
		if j < len(spans) {
			cut = spans[j].start
		}
		bad := `{"k":"v","big":1e999}`
		if c.Kind == "xml" {
			bad = `<k><v>1</v><big></k>`
		}
		data = append(append(append([]byte(nil), data[:cut]...), bad...), data[cut:]...)
		expectN, expectErr = j, true
		at = cut
		if werr := os.WriteFile(fn, data, 0o644); werr != nil {
			return failf("harness-io", "%v", werr)
		}
	case "corrupt":
		if len(data) == 0 {
			info.Skip = "empty file"
			return nil
		}
		at = c.At % len(data)
		// a control byte (other than tab, newline, carriage return) strictly inside a JSON document and outside its
		// strings makes that document ill-formed whatever stands around it: the readers must report an error
		mustErr := false
		if c.Kind == "json" && c.Byte < 0x20 && c.Byte != '\t' && c.Byte != '\n' && c.Byte != '\r' {
			// move to the next position of that kind (deterministically), so that most control-byte cases land on one
			for k := 0; k < len(data) && !mustErr; k++ {
				pos := (at + k) % len(data)
				for _, sp := range spans {
					if sp.start < pos && pos < sp.end-1 && data[pos] != '{' && data[pos] != '}' && !insideJSONString(data[sp.start:sp.end], pos-sp.start) {
						mustErr = true
						at = pos
						break
					}
				}
			}
		}
		data[at] = c.Byte
		expectN = 0
		for _, s := range spans {
			if s.end <= at {
				expectN++
			}
		}
		if mustErr {
			if werr := os.WriteFile(fn, data, 0o644); werr != nil {
				return failf("harness-io", "%v", werr)
			}
			got, _, e1, e2 := read(fn)
			if e1 != nil && strings.HasPrefix(e1.Error(), "raw variant") {
				return failf("raw-variant-differs", "%v\nfile %q", e1, data)
			}
			if e1 == nil || e2 == nil {
				return failf("read-back-error", "control byte %#x written over position %d inside a document (outside its strings): errors %v / %v, %d Maps read back\nfile %q", c.Byte, at, e1, e2, len(got), data)
			}
			info.Class("control byte inside a JSON document")
		}
		if werr := os.WriteFile(fn, data, 0o644); werr != nil {
			return failf("harness-io", "%v", werr)
		}
	}
	got, raws, e1, e2 := read(fn)
	if e1 != nil && strings.HasPrefix(e1.Error(), "raw variant") {
		return failf("raw-variant-differs", "%v\nfile %q", e1, data)
	}
	switch c.Damage {
	case "none", "truncate", "bad-document":
		if len(got) != expectN {
			return failf("read-back-count", "%s at %d: read back %d Maps, want %d (errors %v / %v)\nfile %q", c.Damage, at, len(got), expectN, e1, e2, data)
		}
		if (e1 != nil) != expectErr || (e2 != nil) != expectErr {
			return failf("read-back-error", "%s at %d: errors %v / %v, expected error=%v\nfile %q", c.Damage, at, e1, e2, expectErr, data)
		}
	case "corrupt":
		// no panic; the Maps of the documents before the corrupted one are intact
		if len(got) < expectN {
			return failf("read-back-count", "corrupt byte %d: only %d Maps read back, the %d documents before it are intact\nfile %q", at, len(got), expectN, data)
		}
		got = got[:expectN]
		if raws != nil {
			raws = raws[:expectN]
		}
	}
	for i := range got {
		if !reflect.DeepEqual(got[i], want[i]) {
			return failf("read-back-mismatch", "document %d: read back %#v want %#v\nfile %q", i, got[i], want[i], data)
		}
		if raws != nil {
			if c.Kind == "json" {
				if !bytes.Equal(stripWS(raws[i]), stripWS(texts[i])) {
					return failf("raw-mismatch", "raw %d %q is not the document %q (modulo whitespace)", i, raws[i], texts[i])
				}
			} else if !bytes.Contains(raws[i], bytes.TrimSpace(texts[i])) {
				return failf("raw-mismatch", "raw %d %q does not contain the document %q", i, raws[i], texts[i])
			}
		}
	}
	nested := false
	for _, m := range ms {
		nested = nested || depth2(map[string]interface{}(m), 0)
	}
	info.ClassIf(len(ms) >= 2, ">=2 Maps")
	info.ClassIf(c.Damage == "truncate" && expectErr && expectN >= 1, "truncation inside the 2nd or later document")
	info.ClassIf(c.Indent, "indented")
	info.NonTrivial(len(ms) >= 2 && nested)
	return nil
}

func TestC19(t *testing.T) { runProp(t, "C19", genC19, checkC19) }

// insideJSONString: is byte offset i of the JSON text inside a string (quotes included)?
func insideJSONString(doc []byte, i int) bool {
	in, esc := false, false
	for p, b := range doc {
		if p == i {
			return in || b == '"'
		}
		switch {
		case esc:
			esc = false
		case in && b == '\\':
			esc = true
		case b == '"':
			in = !in
		}
	}
	return false
}
