package props

// Abstract XML documents: model, serializer (the harness's own escaping) and generators.

import (
	"fmt"
	"strings"

	"pgregory.net/rapid"
)

type XAttr struct {
	Prefix string `json:"p,omitempty"` // "", a namespace prefix, or "xmlns"
	Local  string `json:"l"`
	Value  string `json:"v"`
}

// XItem kinds
const (
	kText = iota
	kElem
	kWS
	kComment
	kProcInst
	kDirective
)

type XItem struct {
	Kind  int    `json:"k"`
	Text  string `json:"t,omitempty"`
	Style int    `json:"s,omitempty"` // text: 0 escaped, 1 CDATA, 2 numeric character references
	El    *XElem `json:"e,omitempty"`
}

type XElem struct {
	Prefix string  `json:"p,omitempty"`
	Local  string  `json:"l"`
	Attrs  []XAttr `json:"a,omitempty"`
	Items  []XItem `json:"i,omitempty"`
}

func escText(s string) string {
	return strings.NewReplacer("&", "&amp;", "<", "&lt;", ">", "&gt;").Replace(s)
}

func escAttr(s string) string {
	return strings.NewReplacer("&", "&amp;", "<", "&lt;", ">", "&gt;", `"`, "&quot;", "\n", "&#xA;", "\t", "&#x9;", "\r", "&#xD;").Replace(s)
}

// refsText writes every character that is not an ASCII letter or digit as a numeric reference.
func refsText(s string) string {
	var sb strings.Builder
	for i, r := range s {
		switch {
		case r >= 'a' && r <= 'z' || r >= 'A' && r <= 'Z' || r >= '0' && r <= '9':
			sb.WriteRune(r)
		case i%2 == 0:
			fmt.Fprintf(&sb, "&#x%X;", r)
		default:
			fmt.Fprintf(&sb, "&#%d;", r)
		}
	}
	return sb.String()
}

func (e *XElem) QName() string {
	if e.Prefix != "" {
		return e.Prefix + ":" + e.Local
	}
	return e.Local
}

func (a XAttr) QName() string {
	if a.Prefix != "" {
		return a.Prefix + ":" + a.Local
	}
	return a.Local
}

func (e *XElem) Write(sb *strings.Builder) {
	sb.WriteString("<" + e.QName())
	for _, a := range e.Attrs {
		sb.WriteString(" " + a.QName() + `="` + escAttr(a.Value) + `"`)
	}
	if len(e.Items) == 0 {
		sb.WriteString("/>")
		return
	}
	sb.WriteString(">")
	for _, it := range e.Items {
		switch it.Kind {
		case kText:
			switch {
			case it.Style == 1 && !strings.Contains(it.Text, "]]>"):
				sb.WriteString("<![CDATA[" + it.Text + "]]>")
			case it.Style == 2:
				sb.WriteString(refsText(it.Text))
			default:
				sb.WriteString(escText(it.Text))
			}
		case kElem:
			it.El.Write(sb)
		case kWS:
			sb.WriteString(it.Text)
		case kComment:
			sb.WriteString("<!--" + it.Text + "-->")
		case kProcInst:
			sb.WriteString("<?" + it.Text + "?>")
		case kDirective:
			sb.WriteString("<!" + it.Text + ">")
		}
	}
	sb.WriteString("</" + e.QName() + ">")
}

func (e *XElem) String() string {
	var sb strings.Builder
	e.Write(&sb)
	return sb.String()
}

func (e *XElem) countElems() int {
	n := 1
	for _, it := range e.Items {
		if it.Kind == kElem {
			n += it.El.countElems()
		}
	}
	return n
}

func (e *XElem) walk(f func(*XElem)) {
	f(e)
	for _, it := range e.Items {
		if it.Kind == kElem {
			it.El.walk(f)
		}
	}
}

// ---- generators ----

// incl. the names of HTML void elements (link, br, img, meta, hr, input): ordinary names in XML
var xmlNames = []string{"a", "b", "c", "d", "A", "B", "item", "Item", "x-y", "x_y", "X-Y", "n1", "long-name-here", "Élan", "élan", "Ñu", "ñu", "link", "br", "img", "META", "hr", "input"}
var nsPrefixes = []string{"", "", "", "ns", "p", "n-s"}

// hostile value alphabet (section 3.1 of DESIGN.md); no carriage return
var textAlphabet = []string{"a", "b", "Z", "1", "0", ".", "-", "+", "e", " ", " ", "\t", "\n", "&", "<", ">", "\"", "'", "é", "世", "> <", ">\n <",
	"true", "false", "TRUE", "t", "NaN", "Inf", "1.5", "1e3", "0x1p-2", "&amp;", "&#x41;", "&lt;", "]]>", "]]", "<![CDATA[", "#", ":", "{", "}", "[", "]", "\\", "\\u003c", "=", "/", "<!--", "?>", "\u00a0", "\u3000", "\u2003", "\u0085", "\u00a0",
	"\U0001F600", "e\u0301", "\u2028", "\u2029", "\ufeff", "\U00010000", "\ufffd",
	"%", "%d", "%s", "%%", "100%", "%!", "&nbsp;"[:0] + "nbsp"}

// lookalikes: whole values that are strings and must stay strings - literals of other notations (JSON, JavaScript, Go),
// numerals in spellings other than the canonical one, long digit runs, fragments of JSON or of a richer condition syntax,
// paths and URLs. A decoder, encoder or wrapper that "also accepts" one of these notations must not find it inside data.
var lookalikes = []string{"Infinity", "-Infinity", "NaN", "null", "nil", "undefined", "true", "1.0", "1e3", "0x10", "-0", "4111111111111111", "12345678901234567890",
	">5", "~a", "{\"x\": -Infinity}", "ratio:NaN", "limits [Infinity, 0]", "k: null", "a,true", "x, NaN", "http://x/y", "</script>", "C:\\Users\\me", "a\\", "@type", "$ref", "2023", "<![CDATA[x]]>",
	// what fmt prints for values that are not strings
	"<nil>", "map[]", "[]", "%!s(<nil>)", "&{}", "-0"}

func genText(t *rapid.T, label string) string {
	if rapid.IntRange(0, 9).Draw(t, label+"look") == 0 {
		return rapid.SampledFrom(lookalikes).Draw(t, label+"la")
	}
	n := rapid.IntRange(1, 6).Draw(t, label+"n")
	var sb strings.Builder
	for i := 0; i < n; i++ {
		sb.WriteString(rapid.SampledFrom(textAlphabet).Draw(t, label))
	}
	return sb.String()
}

var wsRuns = []string{"", "", "\n", "\n  ", " ", "\t", "\r\n\t", "\n\n"}

// XGen controls the document generator.
type XGen struct {
	Depth      int
	Opts       Opts
	MixedText  bool // text may stand at any position among child elements (C01); else only before them (C04)
	Extras     bool // comments, processing instructions, directives (C04)
	Namespaces bool
	Wide       bool                                  // occasional element with 33-80 children
	TextGen    func(t *rapid.T, label string) string // leaf and attribute value generator
	NoBlankTxt bool                                  // text values must not be blank after trimming (always true here)
	SeqKeys    bool                                  // the sequence decoder keeps prefixes in its keys: `id`, `x:id` and `xmlns:id` in one tag are three attributes
}

func (g XGen) text(t *rapid.T, label string) string {
	if g.TextGen != nil {
		return g.TextGen(t, label)
	}
	return genText(t, label)
}

func (g XGen) ws(t *rapid.T) string {
	ws := rapid.SampledFrom(wsRuns).Draw(t, "ws")
	if g.Opts.KeepSpaces {
		ws = strings.ReplaceAll(ws, " ", "") // with keep-spaces a run of spaces is content, not whitespace
	}
	return ws
}

func (g XGen) nonBlank(s string) bool {
	set := "\t\r\n "
	if g.Opts.KeepSpaces {
		set = "\t\r\n"
	}
	return strings.Trim(s, set) != ""
}

// wellKnownAttrs: attribute names (and values) that mean something in a format built on XML - schema instance
// attributes, Rails/SOAP type hints, namespace declarations with a query string, HTML attributes. To the library they are
// attributes like any other.
var wellKnownAttrs = []XAttr{
	{Local: "type", Value: "string"}, {Local: "type", Value: "integer"}, {Prefix: "xsi", Local: "type", Value: "xs:string"},
	{Local: "nil", Value: "true"}, {Prefix: "xsi", Local: "nil", Value: "true"}, {Local: "null", Value: "true"},
	{Prefix: "xmlns", Local: "q", Value: "http://example.com/ns?a=1&b=2"}, {Local: "href", Value: "http://x/y?a=1&b=2"},
	{Local: "id", Value: "7"}, {Local: "class", Value: "a b"}, {Local: "lang", Value: "en"}, {Local: "length", Value: "3"},
	{Prefix: "xml", Local: "base", Value: "http://x/"}, {Local: "encoding", Value: "ISO-8859-1"}, {Local: "version", Value: "1.0"},
}

// longName returns a name of n bytes ("N" followed by letters): together with a prefix and the colon, names of 28 to 40
// bytes sit on both sides of 32.
func longName(n int) string { return "N" + strings.Repeat("ame", n)[:n-1] }

func (g XGen) genAttrs(t *rapid.T, e *XElem) {
	if rapid.IntRange(0, 39).Draw(t, "longelem") == 13 {
		e.Local = longName(rapid.IntRange(24, 40).Draw(t, "elemlen"))
	}
	na := rapid.IntRange(0, 3).Draw(t, "nattrs")
	many := g.Wide && rapid.IntRange(0, 99).Draw(t, "manyattrs") == 0
	if many {
		na = rapid.IntRange(17, 40).Draw(t, "nmany") // more attributes than any small fixed-size buffer holds
	}
	seen := map[string]bool{}
	for i := 0; i < na; i++ {
		a := XAttr{Local: rapid.SampledFrom(xmlNames).Draw(t, "aname"), Value: g.text(t, "aval")}
		if many {
			a.Local = fmt.Sprintf("at%02d", (i*7)%41) // distinct, not in alphabetical order
		}
		if rapid.IntRange(0, 9).Draw(t, "emptyattr") == 0 {
			a.Value = "" // an attribute may be empty, element text never reaches the Map empty
		}
		if !many && rapid.IntRange(0, 11).Draw(t, "wellknown") == 5 {
			a = rapid.SampledFrom(wellKnownAttrs).Draw(t, "wka")
			if a.Prefix != "" && a.Prefix != "xml" && !g.Namespaces {
				a.Prefix = ""
			}
		} else if !many && rapid.IntRange(0, 59).Draw(t, "longattr") == 31 {
			a.Local = longName(rapid.IntRange(24, 40).Draw(t, "attrlen"))
		}
		if g.Namespaces {
			switch rapid.IntRange(0, 9).Draw(t, "akind") {
			case 0:
				a.Prefix = rapid.SampledFrom([]string{"ns", "p", "n-s", "xml"}).Draw(t, "apfx") // xml:space, xml:lang need no declaration
			case 1:
				a = XAttr{Prefix: "xmlns", Local: rapid.SampledFrom([]string{"ns", "p", "n-s"}).Draw(t, "nsdecl"), Value: "urn:" + rapid.SampledFrom([]string{"x", "y"}).Draw(t, "uri")}
				if g.SeqKeys && len(e.Attrs) > 0 && rapid.Bool().Draw(t, "declsamelocal") {
					a.Local = e.Attrs[len(e.Attrs)-1].Local // a prefix that is spelled like an attribute of the same tag
				}
			case 2:
				a = XAttr{Local: "xmlns", Value: "urn:default"}
			case 3:
				// the attributes of the reserved xml: namespace, with the values XML gives a meaning to
				if rapid.Bool().Draw(t, "xmlspace") {
					a = XAttr{Prefix: "xml", Local: "space", Value: rapid.SampledFrom([]string{"preserve", "preserve", "default"}).Draw(t, "xsv")}
				} else {
					a = XAttr{Prefix: "xml", Local: "lang", Value: rapid.SampledFrom([]string{"en", "de-CH", ""}).Draw(t, "xlv")}
				}
			}
		}
		if g.SeqKeys && g.Namespaces && a.Prefix == "" && a.Local != "xmlns" && len(e.Attrs) > 0 && rapid.IntRange(0, 5).Draw(t, "samelocal") == 0 {
			// the local name of an earlier attribute of this tag, under a prefix
			a.Prefix, a.Local = rapid.SampledFrom([]string{"ns", "p"}).Draw(t, "slpfx"), e.Attrs[rapid.IntRange(0, len(e.Attrs)-1).Draw(t, "slidx")].Local
		}
		fk := foldKey(a.Local, g.Opts)
		if g.Opts.Lower {
			fk = strings.ToLower(fk)
		}
		if g.SeqKeys && a.Prefix != "" {
			fk = a.Prefix + ":" + fk
		}
		if seen[fk] { // the conventions do not say which of two attributes wins one key
			continue
		}
		seen[fk] = true
		e.Attrs = append(e.Attrs, a)
	}
}

func (g XGen) genExtra(t *rapid.T, kind int) XItem {
	switch kind {
	case kComment:
		return XItem{Kind: kComment, Text: rapid.SampledFrom([]string{" c ", "note", "a < b & c", " x=\"1\" ", "", " <a>1</a> <b>2</b> ", "x>\n<y"}).Draw(t, "comment")}
	case kProcInst:
		return XItem{Kind: kProcInst, Text: rapid.SampledFrom([]string{"pi a=\"1\"", "target some instruction", "php echo 1;", "t", "xml-stylesheet href=\"a.xsl\"", "xml-model x", "xmlfoo y", "x-xml z", "render wrap=\"<i> <b>\""}).Draw(t, "pi")}
	}
	return XItem{Kind: kDirective, Text: rapid.SampledFrom([]string{"DOCTYPE a", "ENTITY x \"y\"", "DIRECTIVE text here", "DOCTYPE doc [<!ENTITY x \"1\"> <!ENTITY y \"2\">]"}).Draw(t, "dir")}
}

func (g XGen) Elem(t *rapid.T, depth int) *XElem {
	e := &XElem{Local: rapid.SampledFrom(xmlNames).Draw(t, "name")}
	if g.Namespaces {
		e.Prefix = rapid.SampledFrom(nsPrefixes).Draw(t, "ns")
	}
	g.genAttrs(t, e)
	kind := rapid.IntRange(0, 3).Draw(t, "kind")
	if depth <= 0 && kind > 1 {
		kind = 1
	}
	if g.Wide && depth >= 2 && rapid.IntRange(0, 149).Draw(t, "deepchain") == 0 {
		// a chain of 50-70 nested single-child elements around an ordinary leaf element
		n := rapid.IntRange(50, 70).Draw(t, "chainlen")
		cur := e
		for i := 0; i < n; i++ {
			c := &XElem{Local: rapid.SampledFrom(xmlNames).Draw(t, "chainname")}
			cur.Items = append(cur.Items, XItem{Kind: kElem, El: c})
			cur = c
		}
		cur.Items = append(cur.Items, XItem{Kind: kElem, El: g.Elem(t, 0)})
		return e
	}
	textItem := func(label string) XItem {
		s := g.text(t, label)
		if g.Wide && rapid.IntRange(0, 299).Draw(t, "longtext") == 0 {
			// longer than any 4096-byte buffer, recognisable at both ends
			s = "BEGIN" + strings.Repeat("0123456789abcde ", rapid.IntRange(257, 600).Draw(t, "longn")) + s + "END"
		}
		for i := 0; !g.nonBlank(s) && i < 5; i++ {
			s += "x"
		}
		return XItem{Kind: kText, Text: s, Style: rapid.SampledFrom([]int{0, 0, 0, 1, 2}).Draw(t, "style")}
	}
	leafExtras := func() {
		// a comment / PI / directive may also stand in an element that has no child elements
		if g.Extras && rapid.IntRange(0, 3).Draw(t, "leafextra") == 0 {
			for _, k := range []int{kComment, kProcInst, kDirective} {
				if rapid.IntRange(0, 2).Draw(t, "leafextrakind") == 0 {
					e.Items = append(e.Items, g.genExtra(t, k))
				}
			}
		}
	}
	switch kind {
	case 0: // empty
		leafExtras()
	case 1: // text only
		e.Items = append(e.Items, textItem("text"))
		leafExtras()
	default:
		nc := rapid.IntRange(1, 4).Draw(t, "nchildren")
		wide := g.Wide && depth >= 1 && rapid.IntRange(0, 39).Draw(t, "wide") == 0
		var wideShape *XElem
		wideMode, wideOdd := 0, -1
		if wide {
			nc = rapid.IntRange(33, 80).Draw(t, "nwide")
			if rapid.Bool().Draw(t, "midwide") {
				nc = rapid.IntRange(10, 20).Draw(t, "nmid") // around the thresholds where sorts and buffers change strategy
			}
			wideShape = g.Elem(t, 0)
			// 0: all alike; 1: exactly one differently named member somewhere; 2: each member differs with 1/8
			wideMode = rapid.IntRange(0, 2).Draw(t, "widemode")
			wideOdd = rapid.IntRange(0, nc-1).Draw(t, "wideodd")
		}
		textPos := -1
		if kind == 3 {
			if g.MixedText {
				textPos = rapid.IntRange(0, nc).Draw(t, "textpos")
			} else {
				textPos = 0
			}
		}
		var extras [6]int
		if g.Extras {
			for _, k := range []int{kComment, kProcInst, kDirective} {
				extras[k] = -1
				if rapid.IntRange(0, 3).Draw(t, "hasextra") == 0 {
					lo := 0
					if textPos == 0 {
						lo = 0 // may still follow the text directly
					}
					extras[k] = rapid.IntRange(lo, nc).Draw(t, "extrapos")
				}
			}
		}
		for i := 0; i <= nc; i++ {
			if i == textPos {
				e.Items = append(e.Items, textItem("mtext"))
			} else if ws := g.ws(t); ws != "" {
				e.Items = append(e.Items, XItem{Kind: kWS, Text: ws})
			}
			if g.Extras {
				for _, k := range []int{kComment, kProcInst, kDirective} {
					if extras[k] == i {
						e.Items = append(e.Items, g.genExtra(t, k))
					}
				}
			}
			if i < nc {
				if wide {
					c := *wideShape
					if (wideMode == 1 && i == wideOdd) || (wideMode == 2 && rapid.IntRange(0, 7).Draw(t, "wvar") == 0) {
						c.Local = rapid.SampledFrom(xmlNames).Draw(t, "wname")
					}
					e.Items = append(e.Items, XItem{Kind: kElem, El: &c})
				} else {
					e.Items = append(e.Items, XItem{Kind: kElem, El: g.Elem(t, depth-1)})
				}
			}
		}
	}
	return e
}

// ---- reference decoder: the documented XML -> Map conventions (C01) ----

func normEOL(s string) string {
	return strings.ReplaceAll(strings.ReplaceAll(s, "\r\n", "\n"), "\r", "\n")
}

func trimSet(o Opts) string {
	if o.KeepSpaces {
		return "\t\r\n"
	}
	return "\t\r\n "
}

// refDecode returns key and value for element e under options o.
func refDecode(e *XElem, o Opts) (string, interface{}) {
	textK := o.textK()
	key := foldKey(e.Local, o)
	na := map[string]interface{}{}
	add := func(k string, v interface{}) {
		if old, ok := na[k]; ok {
			if l, ok := old.([]interface{}); ok {
				na[k] = append(l, v)
			} else {
				na[k] = []interface{}{old, v}
			}
		} else {
			na[k] = v
		}
	}
	for _, a := range e.Attrs {
		v := a.Value
		if o.DecEscape {
			v = mxjEsc(v)
		}
		k := attrKey(a.Local, o)
		na[k] = refCast(v, o, k)
	}
	var text string
	hasText := false
	seq := 0
	for _, it := range e.Items {
		switch it.Kind {
		case kText, kWS:
			t := strings.Trim(normEOL(it.Text), trimSet(o))
			if t != "" {
				if o.DecEscape {
					t = mxjEsc(t)
				}
				text, hasText = t, true
			}
		case kElem:
			ck, cv := refDecode(it.El, o)
			if o.SeqNum {
				if m, ok := cv.(map[string]interface{}); ok {
					m["_seq"] = seq
				} else {
					cv = map[string]interface{}{textK: cv, "_seq": seq}
				}
				seq++
			}
			add(ck, cv)
		}
	}
	if hasText {
		if len(na) > 0 || o.SimpleAsMap {
			na[textK] = refCast(text, o, textK)
		} else {
			return key, refCast(text, o, key)
		}
	}
	if len(na) == 0 {
		return key, ""
	}
	return key, na
}

// ---- leaf texts for the cast properties (C14, and C01 under cast) ----

var castTexts = []string{
	"0", "", "1", "-1", "+1", "42", "007", "9223372036854775807", "-9223372036854775808", "9223372036854775808", "18446744073709551615", "18446744073709551616",
	"-0", "-0.0", "0.0", "+0", "1.0", "1.5", "-0.5", ".5", "5.", "1e3", "1E3", "1e-3", "1E400", "-1e400", "0x1p-2", "0x10", "1_0", "1_000.5", "0b1", "0o7",
	"NaN", "nan", "NAN", "nAn", "+NaN", "-nan", "Inf", "inf", "INF", "+Inf", "+inf", "-Inf", "-INF", "Infinity", "infinity", "INFINITY", "+Infinity", "-infinity", "+INFINITY", "infinit", "in", "na",
	"t", "T", "true", "TRUE", "True", "f", "F", "false", "FALSE", "False", "tRuE", "yes", "no", "tr", "falsee", "truee", "fals",
	"x", "hello world", "1 2", "1a", "a1", "-", "+", ".", "e", "1e", "--1", "é", "世", "true false",
	// the ends of the float64 range and of its precision
	"1.7976931348623157e308", "-1.7976931348623157E+308", "1.7976931348623158e308", "1.7976931348623159e308", "0x1.fffffffffffffp1023", "179769313486231570000000000000000000000000000000000000000000000000000000000000000000000000000000000000000000000000000000000000000000000000000000000000000000000000000000000000000000000000000000000000000000000000000000000000000000000000000000000000000000000000000000000000000000000000000000000000000000000",
	"5e-324", "4.9e-324", "2e-324", "-5e-324", "1e-400", "2.2250738585072014e-308", "2.2250738585072011e-308", "9007199254740993", "0.1000000000000000055511151231257827", "1.0000000000000002", "123456789012345678901234567890",
}

func genCastText(t *rapid.T, label string) string {
	return rapid.SampledFrom(castTexts).Draw(t, label)
}
