"""Per-property configuration of the checks (case counts, shards, rules) - read by ./check and mkmanifest.py."""

COMMON_ASSUMPTIONS = [
    "exploration only: absence of a counterexample within the stated bounds is evidence, not proof",
    "the Go standard library (encoding/xml tokenizer, encoding/json, strconv, reflect.DeepEqual) is trusted as the reference where the property itself refers to it",
    "each run is a pure function of /repo's working tree and VERIF_SEED (rapid seed = splitmix(VERIF_SEED, shard)); native fuzzing (thorough tier only) is not reproducible by seed, its saved input is",
    "package-level mxj options are at their defaults at the start of every case and restored at its end",
]


def tiers(quick_checks, thorough_checks, quick_shards=8, thorough_shards=16, **extra):
    q = dict(shards=quick_shards, checks=quick_checks, ceiling_s=600)
    t = dict(shards=thorough_shards, checks=thorough_checks, ceiling_s=3000)
    for k, v in extra.items():
        if k.startswith("q_"):
            q[k[2:]] = v
        elif k.startswith("t_"):
            t[k[2:]] = v
    return q, t


PROPS = {}


def prop(pid, test, quick, thorough, rule, bounds, technique, level_text, level_note, design_ref, assumptions=(), race=False):
    PROPS[pid] = dict(test=test, quick=quick, thorough=thorough, rule=rule, bounds=bounds, technique=technique,
                      level_text=level_text, level_note=level_note, design_ref=design_ref,
                      assumptions=list(assumptions), race=race)


q, t = tiers(12000, 400000)
prop("C07", "TestC07", q, t,
     rule="rapid draws a shape (type tree), instantiates a JSON-shaped Map from it and walks the shape to draw a path "
          "(15% '*' steps, optional [i], 1-6 steps, 10% one missing key); 10% of cases come from class boosters "
          "(two indexed list levels; results wider than 32). A case is non-trivial when the reference result is non-empty "
          "AND the path crosses a list or uses '*'/[i]; distinct = distinct 64-bit hash of the canonical JSON of the whole case (Map, path, array size).",
     bounds="shape depth <= 5, 2-4 root fields, 1-4 fields per map, list length 0-5 (33-80 for wide lists), path length 1-6, index in {0,1,2,4}",
     technique="property-based testing (rapid): shape-first generated Maps and paths against a hand-written reference evaluator of the path language; differential against j2x/x2j wrappers",
     level_text="Generated-input search: ValuesForPath/ValueForPath/ValueForPathString/Exists and the j2x/x2j path wrappers are compared, case by case, "
                "with an independent reference evaluator of the documented path semantics (sequence equality without wildcards, multiset equality with them). "
                "Class shares (non-empty, list-crossing, >=2 indexed steps, wide results) are measured and reported.",
     level_note="Trusted: the reference evaluator (ref_path_test.go, ~100 lines, written from the documentation); leniency 7 of DESIGN.md "
                "(a plain step does not enter a list that is a direct member of a list). Bounded sizes; no proof of absence.",
     design_ref="DESIGN.md section 4, C07")
