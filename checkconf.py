"""Per-property configuration of the checks (case counts, shards, rules) - read by ./check and mkmanifest.py."""

COMMON_ASSUMPTIONS = [
    "exploration only: absence of a counterexample within the stated bounds is evidence, not proof",
    "the Go standard library (encoding/xml tokenizer, encoding/json, strconv, reflect.DeepEqual) is trusted as the reference where the property itself refers to it",
    "each run is a pure function of /repo's working tree and VERIF_SEED (rapid seed = splitmix(VERIF_SEED, shard)); native fuzzing (thorough tier only) is not reproducible by seed, its saved input is",
    "package-level mxj options are at their defaults at the start of every case and restored at its end",
]


def tiers(quick_checks, thorough_checks, quick_shards=8, thorough_shards=16, **extra):
    q = dict(shards=quick_shards, checks=quick_checks, ceiling_s=600)
    t = dict(shards=thorough_shards, checks=thorough_checks, ceiling_s=3000)
    for k, v in extra.items():
        if k.startswith("q_"):
            q[k[2:]] = v
        elif k.startswith("t_"):
            t[k[2:]] = v
    return q, t


PROPS = {}


def prop(pid, test, quick, thorough, rule, bounds, technique, level_text, level_note, design_ref, assumptions=(), race=False, inflight=True):
    PROPS[pid] = dict(test=test, quick=quick, thorough=thorough, rule=rule, bounds=bounds, technique=technique,
                      level_text=level_text, level_note=level_note, design_ref=design_ref,
                      assumptions=list(assumptions), race=race, inflight=inflight)


q, t = tiers(12000, 400000, t_fuzz=[dict(target="FuzzGenC07", seconds=60)])
prop("C07", "TestC07", q, t,
     rule="rapid draws a shape (type tree), instantiates a JSON-shaped Map from it and walks the shape to draw a path "
          "(15% '*' steps, optional [i], 1-6 steps, 10% one missing key); 10% of cases come from class boosters "
          "(two indexed list levels; results wider than 32). A case is non-trivial when the reference result is non-empty "
          "AND the path crosses a list or uses '*'/[i]; distinct = distinct 64-bit hash of the canonical JSON of the whole case (Map, path, array size).",
     bounds="shape depth <= 5, 2-4 root fields, 1-4 fields per map, list length 0-5 (33-80 for wide lists), path length 1-6, index in {0,1,2,4}",
     technique="property-based testing (rapid): shape-first generated Maps and paths against a hand-written reference evaluator of the path language; differential against j2x/x2j wrappers",
     level_text="Generated-input search: ValuesForPath/ValueForPath/ValueForPathString/Exists and the j2x/x2j path wrappers are compared, case by case, "
                "with an independent reference evaluator of the documented path semantics (sequence equality without wildcards, multiset equality with them). "
                "Class shares (non-empty, list-crossing, >=2 indexed steps, wide results) are measured and reported.",
     level_note="Trusted: the reference evaluator (ref_path_test.go, ~100 lines, written from the documentation); leniency 7 of DESIGN.md "
                "(a plain step does not enter a list that is a direct member of a list). Bounded sizes; no proof of absence.",
     design_ref="DESIGN.md section 4, C07")

q, t = tiers(5000, 150000, t_fuzz=[dict(target="FuzzGenC01", seconds=60)])
prop("C01", "TestC01", q, t,
     rule="rapid draws an option set (attribute prefix x key prefix x 2^6 decoder switches x cast switches) and an abstract XML document "
          "(names from a 13-name alphabet with folding collisions, namespaced names, xmlns declarations, 0-3 attributes, text alone / at any position among children, "
          "CDATA and numeric character references, inter-element whitespace incl. CR/LF, occasional 33-80 children); the document is serialised by the harness. "
          "Non-trivial: >=2 elements AND (interleaved repeated sibling OR key collision by folding/empty prefix OR text beside attributes/children OR an option that changes the expected Map); "
          "distinct = hash of (options, document).",
     bounds="depth <= 4, fan-out 1-4 (33-80 for wide nodes), <= 3 attributes, text of 1-6 tokens from a 47-token hostile alphabet",
     technique="property-based testing (rapid): generated documents x option sets against a hand-written reference decoder of the documented XML->Map conventions",
     level_text="Generated-input search: NewMapXml, NewMapXmlReader (ByteReader and plain Reader), NewMapXmlReaderRaw and x2j.XmlToMap are compared with an "
                "independent reference decoder (refDecode, written from doc.go/readme/option comments) for every generated document and option combination.",
     level_note="Trusted: the reference decoder and the harness serializer. Narrowings (DESIGN.md C01): attribute names distinct after folding, lower-case attribute prefixes, "
                "no element named like a reserved key, blank runs under keep-spaces contain no spaces. Bounded sizes.",
     design_ref="DESIGN.md section 4, C01")

q, t = tiers(5000, 150000)
prop("C02", "TestC02", q, t,
     rule="C01 documents x symmetric option sets (non-empty attribute prefix, key prefix, lower, snake, simple-as-map, keep-spaces, encoder- or decoder-side escaping, "
          "float/bool cast, Go empty-element syntax) x {Xml, XmlIndent(blank prefix, blank indent)}. Non-trivial: the decoded Map contains a list, text plus children, "
          "an attribute-only element, a value with a special character or blank edge, or a cast leaf; distinct = hash of the case.",
     bounds="as C01; indent/prefix strings of <= 4 blanks (tabs only under keep-spaces)",
     technique="property-based testing (rapid): round trip decode-encode-decode with a well-formedness oracle (strict encoding/xml) and the C01 reference decoder tying the first Map to the source document",
     level_text="Generated-input search: m1=decode(doc) must equal the reference decode of the source tree, encode(m1) must be well formed with one root, and decode(encode(m1)) must equal m1, "
                "for compact and indented encoders under every drawn symmetric option combination.",
     level_note="Trusted: encoding/xml as well-formedness judge, the C01 reference decoder. Integer casting and tag sequence numbers excluded (documented asymmetric).",
     design_ref="DESIGN.md section 4, C02")

q, t = tiers(25000, 600000)
prop("C03", "TestC03", q, t,
     rule="rapid draws JSON-shaped values (maps, lists incl. empty/nested/mixed, strings from the hostile alphabet, numbers, booleans, nulls, '-k' and '#text' scalar entries, depth <= 4) "
          "and an entry point (Map.Xml, Map.XmlIndent, AnyXml, AnyXmlIndent with default/explicit tags, j2x.JsonToXml). Non-trivial: the value contains a list with >=2 members, "
          "a nested or empty list, a null inside a list, or attributes mixed with children; distinct = hash of the case.",
     bounds="depth <= 4, <= 4 entries per map, <= 3 members per list",
     technique="property-based testing (rapid): encode then decode, compared with a reference statement of the Map->XML conventions (refElems) composed with the C01 reference decoder",
     level_text="Generated-input search: the output of five encoder entry points must be well formed with exactly one root and must decode to refDecode(refElems(value)), "
                "which fixes key set, nesting, list order, scalar text, attribute/text placement and the four empty forms at once.",
     level_note="Trusted: refElems/refDecode, encoding/xml. Narrowings: '-k'/'#text' values are non-null scalars; no root without an element name; keys are XML names.",
     design_ref="DESIGN.md section 4, C03")

q, t = tiers(4000, 100000, t_fuzz=[dict(target="FuzzGenC04", seconds=60)])
prop("C04", "TestC04", q, t,
     rule="rapid draws documents with arbitrary interleaving of sibling names, prefixed names and xmlns attributes, ordered attributes, <=1 comment/PI/directive per element at any position, "
          "text alone or before the children, inter-element whitespace, hostile values; MapSeq.Xml, MapSeq.XmlIndent, BeautifyXml and NewMapFormattedXmlSeq(indented) are each compared. "
          "Non-trivial: non-contiguous repeated sibling, >=2 attributes, a comment/PI/directive between elements, or leading text with children; distinct = hash of the case.",
     bounds="depth <= 4, fan-out 1-4 (33-80 wide), <= 3 attributes",
     technique="property-based testing (rapid): round trip through the sequence codec compared token by token (encoding/xml RawToken stream as structs) with the source document",
     level_text="Generated-input search: the normalised raw token stream (prefixed names, attribute order and values, trimmed text, comments/PIs/directives in position) of each encoder's output "
                "must equal that of the generated source document.",
     level_note="Trusted: encoding/xml RawToken as the token oracle; text is compared after trimming (inter-element whitespace is not significant per the property).",
     design_ref="DESIGN.md section 4, C04")

q, t = tiers(10000, 300000)
prop("C05", "TestC05", q, t,
     rule="four clauses drawn per case: (a) encoder-side escaping - hostile strings in element, attribute and text-beside-child positions of a Map/MapSeq, four encoders, exact value recovery; "
          "(b) decoder-side escaping - generated documents, decode-with-escaping/encode/plain-decode equals plain decode (Map) or equal token streams (MapSeq); "
          "(c) escaping off + XmlCheckIsValid - error or well-formed output, and the check never changes returned bytes; (d) call sequences over the two coupled escaping switches against a model. "
          "Non-trivial: some string holds one of & < > \" ' (a,b,c) / both switches are called (d); distinct = hash of the case.",
     bounds="strings of 1-6 tokens from a 25-token alphabet; documents depth <= 3; 1-5 switch calls",
     technique="property-based testing (rapid): round-trip value recovery, metamorphic relation between escaping modes, validity oracle (strict encoding/xml), small model of the coupled switches",
     level_text="Generated-input search over strings x positions x four encoders x escaping modes x validity switch with the oracles named in the rule.",
     level_note="Trusted: encoding/xml as validity judge. Element text is compared after the documented trimming.",
     design_ref="DESIGN.md section 4, C05")

q, t = tiers(25000, 600000, t_fuzz=[dict(target="FuzzJSON", seconds=90)])
prop("C06", "TestC06", q, t,
     rule="two clauses: (roundtrip) JSON-shaped Maps with keys/strings over an alphabet rich in < > &, backslashes, quotes, control characters and the literal texts \\u003c \\u003e \\u0026, "
          "encoded with Json/JsonIndent (safe on/off, blank prefix/indent), the Writer/Raw forms, j2x.MapToJson and Copy; (diff) byte strings - encodings of generated values, "
          "35 hostile literals, and 0-2 local mutations of them (truncate, overwrite, insert, delete, duplicate tail) - decoded by NewMapJson and by a plain json.Decoder, with and without UseNumber. "
          "Non-trivial: (roundtrip) some string holds < > & or a literal \\u00xx text; (diff) the reference accepts, or the input is a mutation; distinct = hash of the case.",
     bounds="depth <= 4, <= 4 entries per map, strings of <= 6 tokens, inputs <= ~300 bytes",
     technique="property-based testing (rapid): round trip + byte-level invariants on the encoder, differential against encoding/json on the decoder; native fuzzing of the differential in the thorough tier",
     level_text="Generated-input search: encoder output must be valid JSON, decode back to the identical Map, contain no literal < > & when safe and exactly the data's when not; "
                "writer/wrapper forms must return the same bytes; NewMapJson must accept/reject and decode exactly like encoding/json (arrays wrapped under 'object').",
     level_note="Trusted: encoding/json. Narrowing: valid UTF-8 strings, finite floats. No claim for an array followed by trailing junk (leniency 8).",
     design_ref="DESIGN.md section 4, C06")

q, t = tiers(12000, 400000)
prop("C08", "TestC08", q, t,
     rule="shape-first Maps (with and without lists nested in lists; 20% from boosters for list-in-list and for sibling maps over a small key/value alphabet), a key (present at several depths, inside lists, absent, '*'), "
          "0-3 sub-key conditions (typed string/bool/number, '*', '!', alternative separators), half of them drawn from entries of actual candidates; the filter is applied through ValuesForKey or ValuesForPath. "
          "Non-trivial: the key occurs at >=2 depths or inside a list, or at least one candidate passes the filter and one fails; distinct = hash of the case.",
     bounds="shape depth <= 5, lists <= 5 members (33-80 wide), <= 3 conditions, path length <= 6",
     technique="property-based testing (rapid): reference walkers for key search and path collection, cross-consistency of three APIs, three-valued reference predicate bounding the filtered result (must subset result subset may)",
     level_text="Generated-input search: ValuesForKey/ValueForKey vs a reference walker (multisets), PathsForKey/PathForKeyShortest vs a reference path set (no duplicates, minimal length), "
                "the union of ValuesForPath over those paths vs ValuesForKey, and sub-keys as a pure filter of the unfiltered result under the documented predicate.",
     level_note="Trusted: the reference walkers and predicate. '!k:v' on a map lacking k is treated as unspecified (leniency 2) and counted.",
     design_ref="DESIGN.md section 4, C08")

q, t = tiers(12000, 400000)
prop("C09", "TestC09", q, t,
     rule="shape-first Maps decorated with attribute ('prefix+name') and '#text' entries, a two-list-level booster, and Maps over exotic keys ('', 'x.y', 'q[0]', '*', '[', ' '); "
          "options: attribute prefix in {-,@,attr_,''}, dot notation, no-attributes. Non-trivial: >=2 leaves and a list on some leaf path; distinct = hash of the case.",
     bounds="shape depth <= 5; exotic maps depth <= 4",
     technique="property-based testing (rapid): reference leaf enumeration, resolution of every leaf path through ValuesForPath, projection and wrapper agreement",
     level_text="Generated-input search: LeafNodes must equal the reference (path,value) multiset (value multiset for exotic keys), every leaf path must resolve through ValuesForPath to exactly its value "
                "(default options, safe keys), LeafPaths/LeafValues must be projections, the no-attributes option must remove exactly prefixed entries and the text segment, j2x/x2j wrappers must agree.",
     level_note="Trusted: reference enumeration (30 lines). Lists directly inside lists are outside the property's domain.",
     design_ref="DESIGN.md section 4, C09")

q, t = tiers(12000, 400000, t_fuzz=[dict(target="FuzzGenC10", seconds=60)])
prop("C10", "TestC10", q, t,
     rule="shape-first Maps and plain/wildcard paths (10% from a booster with a list as the node before the last key), key = last path segment (form 1) or another key (form 2), 0-2 sub-key conditions, "
          "new value as single-entry map / mxj.Map (unique sentinel scalar or small map) or as 'key:value[:type]' string with ':' or '|' separator; wrappers j2x.JsonUpdateValsForPath / x2j.XmlUpdateValsForPath. "
          "Non-trivial: at least one mandatory target AND another entry under the same key that must not change; distinct = hash of the case.",
     bounds="shape depth <= 5, path length <= 6, <= 2 conditions",
     technique="property-based testing (rapid): reference classification of every concrete position as mandatory/optional/forbidden, frame condition by structural diff, count check, update-then-query relation, differential string form vs map form",
     level_text="Generated-input search: after the call the set R of positions holding the new value must satisfy mandatory subset R subset mandatory+optional, nothing else may differ (frame), "
                "the returned count must equal |R|, count 0 must leave the Map untouched, form 1 without sub-keys must make ValuesForPath yield count copies, and the string form and wrappers must agree with the map form.",
     level_note="Trusted: refUpdateSets. Optional (unspecified) positions: creating a missing last key, unspecified conditions, member-level/form-2 targets below a list parent with '*' (leniencies 2-4); counted per run.",
     design_ref="DESIGN.md section 4, C10")

q, t = tiers(8000, 250000)
prop("C11", "TestC11", q, t,
     rule="histories of 1-12 operations (set, remove, rename, query) generated against a plain nested-map model: paths follow existing keys with probability 5/6 per segment, new names from the key alphabet "
          "(so 'already exists beside it' is frequent) plus fresh names; Maps of nested maps with scalar, null, empty-map and non-empty list values. "
          "Non-trivial: an operation succeeded on a Map with >=3 entries, or a rename was refused for an existing sibling; distinct = hash of (Map, history).",
     bounds="Map depth <= 4, <= 4 keys per map, histories <= 12 operations, paths <= 4 segments",
     technique="model-based (stateful) property testing with rapid: the history is run on the Map and on a reference model, compared after every step",
     level_text="Generated-history search: after every applicable operation the Map must equal the model (exactly one entry changed) and the post-condition must hold; after every inapplicable one "
                "(missing path, non-map parent, existing sibling) the Map must be unchanged, a refused rename must return an error, and nothing may panic.",
     level_note="Trusted: the 60-line model. Setting below a list lies outside 'dot-paths through nested maps': only the frame (<=1 entry, none with an error) is enforced there and counted.",
     design_ref="DESIGN.md section 4, C11")

q, t = tiers(12000, 400000)
prop("C12", "TestC12", q, t,
     rule="shape-first Maps and 1-5 key pairs: old = plain/wildcard/indexed shape path, new = dot-path over a 4-name alphabet (equal/extending new paths frequent) or the 'old' shorthand; 4% malformed pairs. "
          "Non-trivial: >=2 pairs with non-empty results and at least one projected value that is a map; distinct = hash of the case.",
     bounds="shape depth <= 5, <= 5 pairs, new paths <= 3 segments",
     technique="property-based testing (rapid): receiver frame condition (deep copy before/after, two calls), expected projection built from the C07 reference evaluator, malformed-pair error oracle, j2x wrapper differential",
     level_text="Generated-input search: the receiver must be deeply equal to its copy after every call (also with overlapping new paths); without overlap the result must equal the Map built from refEval(old) per pair "
                "(multisets for wildcard pairs) and nothing else; malformed pairs must return an error.",
     level_note="Trusted: refEval and the expected-map builder.",
     design_ref="DESIGN.md section 4, C12")

q, t = tiers(6000, 200000, t_fuzz=[dict(target="FuzzGenC13", seconds=60)])
prop("C13", "TestC13", q, t,
     rule="1-5 generated XML documents (Map and sequence styles) or JSON objects (keys/strings with braces, quotes, backslashes, a trailing escaped backslash; compact or indented) concatenated with whitespace runs; "
          "a reader schedule of 0-60 actions (deliver min(k,len(p),rest) bytes for k in {1,2,3,7,64} or (0,nil)), final bytes with or before io.EOF, bare or behind a 16-byte bufio.Reader; "
          "APIs: reader, raw, bulk handlers (stopping at the j-th document) and x2j-wrapper.XmlMsgsFromReader. "
          "Non-trivial: >=2 documents AND (a (0,nil) read was delivered OR a multi-byte read spanned a document boundary OR data came with io.EOF); distinct = hash of the case.",
     bounds="<= 5 documents of depth <= 3, schedules <= 60 actions",
     technique="property-based testing (rapid) with a harness-owned io.Reader schedule: stream decoding vs direct decoding of each document's bytes; raw-capture prefix/containment invariants",
     level_text="Generated-schedule search: every reader API must deliver exactly the Maps that direct decoding of each document gives, in order, then io.EOF; raw values must concatenate to a prefix of the stream "
                "(JSON: modulo insignificant whitespace) and contain their document; handlers must be called once per document and stop on false without over-reading.",
     level_note="The schedule is owned by the harness, so this is exhaustive in kind but sampled in combination. JSON raw is compared modulo whitespace outside strings (leniency 1).",
     design_ref="DESIGN.md section 4, C13")

q, t = tiers(6000, 200000)
prop("C14", "TestC14", q, t,
     rule="C01-style documents whose leaf and attribute texts come from an 80-entry list (integers incl. 64-bit boundaries and one beyond, decimal/exponent/hex floats, overflowing numerals, every case/sign variant of "
          "nan/inf/infinity, the ParseBool spellings and near misses, ordinary text) x all combinations of cast-int/float/bool, CastNanInf and a skip-tag function over a key subset; "
          "NewMapXml(doc,true), NewMapXmlSeq(doc,true), x2j-wrapper.DocToJson. Non-trivial: >=1 leaf changes type, >=1 stays a string, >=1 switch is non-default; distinct = hash of the case.",
     bounds="document depth <= 3, fan-out <= 4",
     technique="property-based testing (rapid): structural comparison of cast vs un-cast decoding against a reference cast chain written over strconv; Json() as NaN/Inf oracle",
     level_text="Generated-input search: decode(doc,false) must have only string leaves and equal the C01 reference; decode(doc,true) must have the same shape and keys with every leaf equal to refCast(text, switches, key); "
                "no NaN/Inf unless CastNanInf, and then Json() must succeed; the sequence decoder and the wrapper must agree.",
     level_note="Trusted: strconv and refCast. Which key the skip-tag function is asked about for text beside children only is undocumented: either is accepted and counted.",
     design_ref="DESIGN.md section 4, C14")

q, t = tiers(8000, 250000, t_fuzz=[dict(target="FuzzXML", seconds=120), dict(target="FuzzJSON", seconds=90), dict(target="FuzzArgs", seconds=120)])
prop("C15", "TestC15", q, t,
     rule="two populations: (bytes) generated XML documents (with prolog/BOM/comments), JSON encodings and gob encodings, each with 0-3 local mutations (truncate, overwrite, insert hostile token, delete, prepend junk, duplicate tail), "
          "offered to every decoder incl. reader/raw/bulk forms, under default options plus one class with a single non-default decoder option; (args) Maps with exotic keys ('', '*', 'a.b', 'x[0]') x path/sub-key/pair/new-value "
          "strings built from 37 hostile pieces, offered to every query and update method. Non-trivial: (bytes) the input is mutated; (args) an argument lies outside the clean grammar; distinct = hash of the case. "
          "Thorough tier adds native coverage-guided fuzzing (FuzzXML, FuzzJSON, FuzzArgs) with the same oracles.",
     bounds="documents depth <= 4, <= 3 mutations, argument strings <= 5 pieces; per-case watchdog 60 s",
     technique="property-based testing (rapid) and native go fuzzing: totality (panic/hang/fatal crash capture) plus differential accept/reject against the strict encoding/xml tokenizer",
     level_text="Generated-input search: no call may panic, hang (60 s watchdog) or kill the process (the in-flight case is kept on disk); NewMapXml must succeed exactly when the standard tokenizer accepts the first document and "
                "return no Map with an error; NewMapXmlSeq must answer ok/NoRoot/error as the RawToken reference says; every decoded Map must survive the encoders; mutating methods must leave the Map unchanged when they return an error.",
     level_note="Termination is approximated by a 60 s watchdog. A fatal runtime error (stack overflow) cannot be shrunk: the unshrunk in-flight case is reported.",
     design_ref="DESIGN.md section 4, C15", inflight=True)

q, t = tiers(3000, 100000)
prop("C16", "TestC16", q, t,
     rule="Maps from three sources (JSON-shaped values with attribute/text entries and occasional 24-key maps; decoded documents; MapSeqs of decoded documents), each rebuilt twice with generated insertion orders and map capacities, "
          "encoded repeatedly through every encoder entry point (compact/indent/Writer/WriterRaw/Maps string forms/file forms x XML/JSON/Seq) with blank prefix/indent strings. "
          "Non-trivial: an element with >=3 children or >=2 attributes (Seq: non-contiguous siblings, >=2 attributes or >=4 elements); distinct = hash of the case.",
     bounds="depth <= 4, maps <= 28 keys, 3 rebuilt copies per case",
     technique="property-based testing (rapid): metamorphic relation over insertion order/capacity (byte identity), ordering oracle on the token stream, agreement between ~25 encoder variants",
     level_text="Generated-input search: all encodings of equal Maps must be byte-identical, attributes and children ascending (MapSeq: source order), indent == compact at token level (json.Compact for JSON), "
                "Writer forms must write exactly the returned bytes, Maps string/file forms must be the concatenation of the per-Map encodings.",
     level_note="Go's map iteration order is randomised per range statement, so repeated encodings inside one case already sample different orders; rebuilt copies add different hash layouts. XML *WriterRaw forms are commented out in the library and not claimed.",
     design_ref="DESIGN.md section 4, C16")

q, t = tiers(100, 3000, t_ceiling_s=3300)
prop("C17", "TestC17", q, t,
     rule="a shared Map (decoded document or shape-first JSON value) and MapSeq, 2-8 goroutines each with a generated list of 5-30 operations out of 30 kinds (every read-only query and encoder on the shared values, Copy, gob, NewMap, "
          "private decode/encode), Gosched every 1-4 operations, GOMAXPROCS in {2,4,16}; the same plans are first run sequentially, checking after every operation that the receiver equals its deep copy. "
          "Non-trivial: >=2 goroutines touch the shared Map with >=2 different methods, at least one an encoder; distinct = hash of the case.",
     bounds="<= 8 goroutines x <= 30 operations; documents depth <= 4",
     technique="property-based testing (rapid) under the Go race detector (-race, halt_on_error): receiver-purity frame check per operation, Copy aliasing check, concurrent vs sequential result comparison",
     level_text="Generated-schedule sampling: the race detector must report nothing while generated goroutine mixes run over one shared Map/MapSeq, every concurrent result must equal the sequential one, "
                "and every read-only method must leave its receiver deeply equal to a prior deep copy; mutating every container of a Copy must not change the original and vice versa.",
     level_note="Interleavings are sampled, not enumerated (the harness does not own the Go scheduler); the race detector flags any unsynchronised conflicting access that executes, whatever the timing. "
                "An atomicity defect without a data race would be caught only by the result comparison. A race report ends the worker; its in-flight case is the replay.",
     design_ref="DESIGN.md section 4, C17", race=True, inflight=True)

q, t = tiers(1500, 40000)
prop("C18", "TestC18", q, t,
     rule="histories of 1-25 calls over 26 option setters (explicit, argument-less and repeated forms; attribute prefixes; punctuation key prefixes; both escaping switches; separators; array sizes), "
          "followed by restoring every default in a generated order. Non-trivial: >=2 different setters and (both escaping switches, or >=2 key-prefix changes, or a toggle form); distinct = hash of the history.",
     bounds="histories <= 25 calls",
     technique="model-based (stateful) property testing with rapid: model of the documented option semantics compared after every call with the real option state (verif hook) and with a battery of black-box predictions",
     level_text="Generated-history search: after every call the hook snapshot of all 32 option variables must equal the model, and the model's predictions must hold for Map decoding (cast and un-cast, vs the C01 reference), "
                "sequence-decoder isolation from attribute prefix/lower-case/simple-as-map/seq-num/skip function, JSON isolation (JsonUseNumber only), Map/MapSeq encoder output, leaf paths and the sub-key separator; "
                "after restoring defaults the state and a 16-item behaviour battery must equal those of a fresh process.",
     level_note="Uses the add-only hook /repo/verif_hooks.go (build tag verif) for state comparison; every clause is also checked black-box. Key prefixes are single punctuation characters (the property's domain).",
     design_ref="DESIGN.md section 4, C18")

q, t = tiers(1200, 30000)
prop("C19", "TestC19", q, t,
     rule="1-6 Maps (JSON objects with braces/quotes/backslashes in keys and strings, or decoded XML documents), written with the four file writers (blank indent strings, safe on/off) into a per-case temp directory and read back "
          "with the plain and Raw readers; then the file is truncated at a generated offset or one byte is overwritten, or a missing file / a directory is read; plus Gob/NewMapGob and Copy of a generated Map. "
          "Non-trivial: >=2 Maps, at least one nested two levels; distinct = hash of the case.",
     bounds="<= 6 Maps of depth <= 3 per file",
     technique="property-based testing (rapid) with real files and injected file damage: round trip, truncation/corruption fault injection with an offset-based oracle",
     level_text="Generated-input search: read-back count, order and content (JSON: equal to the original; XML: equal to decode of the Map's own encoding), Raw values containing each document, "
                "truncation at offset t yields exactly the documents ending before t and an error iff t lies strictly inside a document, a corrupted byte never panics and leaves earlier Maps intact, unreadable files yield errors, gob and Copy are symmetric.",
     level_note="gob itself decodes an empty list/map as nil; equality for the gob clause is taken up to that convention. File I/O happens in a scratch directory removed after each case.",
     design_ref="DESIGN.md section 4, C19")

q, t = tiers(4000, 120000)
prop("C20", "TestC20", q, t,
     rule="a generated document (C01 domain, default options) and a JSON-shaped value (shape-first incl. list-in-list, a booster with the key at two depths on one branch), a key/tag, plain/wildcard paths, flags and sub-keys; "
          "per case 60 exported functions of j2x, x2j and x2j-wrapper are compared with their core composition. Non-trivial: >=2 of the compared query functions return non-empty results; distinct = hash of the case.",
     bounds="document depth <= 4, value shape depth <= 5, paths <= 6 steps",
     technique="property-based testing (rapid): differential testing of each wrapper against the documented composition of core functions; reference evaluator for the attribute-skipping walker",
     level_text="Generated-input search: conversion wrappers must return the bytes of decode-then-encode with the same flags; path/key/leaf/update/new-map wrappers must equal the Map methods on the decoded document; "
                "x2j-wrapper's own PathsForKey/PathForKeyShortest/ValuesFromKeyPath/ValuesAtKeyPath/ValuesForKey must agree with the core (attribute entries skipped at wildcard steps unless requested).",
     level_note="Not compared (no core counterpart or a different contract): x2j-wrapper.DocValue/MapValue/NewAttributeMap/Unmarshal/WriteMap, the *Indent JSON forms, file-based bulk functions (C13 covers XmlMsgsFromReader).",
     design_ref="DESIGN.md section 4, C20")


# ---- generator self-test: minimum class shares (about half of what is measured on the unchanged tree).
# A run whose generator falls below them is a harness failure (exit 2), never a property verdict.
MIN_SHARE = {
    "C01": {"interleaved repeated siblings": 0.055, "key collision by folding or empty prefix": 0.025, "text beside attributes/children": 0.3, "options change the expected Map": 0.4},
    "C02": {"list": 0.08, "text plus children": 0.12, "attribute-only element": 0.2},
    "C03": {"list with >=2 members": 0.04, "nested list": 0.02, "null inside a list": 0.02, "empty list": 0.03},
    "C04": {"non-contiguous repeated sibling": 0.04, "comment/PI/directive between elements": 0.1, "leading text with children": 0.15},
    "C07": {"non-empty result": 0.4, "non-empty and crosses a list or uses */[i]": 0.25, "non-empty with >=2 indexed steps": 0.01, "result wider than 32": 0.01, "list-in-list map": 0.02},
    "C08": {"filter: some pass, some fail": 0.03, "key at >=2 depths": 0.15, "key below a list nested in a list": 0.03},
    "C09": {">=2 leaves and a list on a leaf path": 0.2, "two list levels separated by a plain key": 0.08, "resolution clause exercised": 0.1},
    "C10": {"mandatory target present": 0.08, "list is the parent of the last step": 0.02},
    "C11": {"rename refused for an existing sibling": 0.1, "history with >=3 successful mutations": 0.2},
    "C12": {">=2 pairs with non-empty results": 0.2, "a projected value is a map": 0.08, "overlapping new paths (receiver clause only)": 0.1},
    "C13": {"schedule delivered a (0,nil) read": 0.3, "a read spanned a document boundary": 0.07, "final data delivered together with io.EOF": 0.2},
    "C14": {"a leaf changed type": 0.25, "skip-tag function set": 0.2},
    "C15": {"argument outside the clean grammar": 0.15, "rejected by the reference": 0.1, "mutated but still accepted": 0.03},
    "C16": {"element with >=3 children": 0.1, "element with >=2 attributes": 0.15},
    "C18": {"both escaping switches": 0.04, "a toggle form": 0.3},
    "C19": {">=2 Maps": 0.3, "truncation inside the 2nd or later document": 0.03},
    "C20": {"key at >=2 depths in the value": 0.15, "list-in-list value": 0.05},
}

# ---- generator devices added while the checks were strengthened (DESIGN.md section 10.5 tells which seeded change
# prompted which); appended to the "bounds" text of the evidence so that it describes what is generated today.
DEVICES = {
    "C01": "; now and then 255-20000 generated children of the root; whole-value lookalike strings (Infinity, null, 1.0, long digit runs, JSON fragments); the document is decoded once under the default options first, and once more after ONE option was flipped through its own setter",
    "C02": "; attribute prefix reached through SetAttrPrefix or PrependAttrWithHyphen; lookalike strings",
    "C03": "; Go-typed numbers, shared sub-structure, key prefix '_' mode, options changed and restored through the documented calls before the call (optionDetour); whole floats up to 2^64",
    "C04": "; attributes id / x:id / xmlns:id in one tag (sequence keys keep prefixes); '> <' inside comments, PIs, directives and CDATA; chains 50-70 deep, texts > 4096 bytes, 17-40 attributes; a quarter of the cases under keep-spaces (edge blanks are content)",
    "C05": "; a twelfth of the strings are 7-70 special characters only (quote-heavy)",
    "C06": "; lookalike strings, shared sub-structure in the encoded Map, inputs around 512/4096/65536 bytes",
    "C07": "; 3-70 wrapper levels around the Map (wrapDeep), empty member names (also below an indexed step), keys like k\\ @type $ref 2023 !x, a key renamed to ns:key, JSON text with a duplicated top-level key, caller buffer reuse / same bytes under other options for the wrappers",
    "C08": "; wrapDeep, empty member names, separators \\t and ' | ', labels that begin with '!' (negated only)",
    "C09": "; wrapDeep, empty member names (never last), dot notation and attribute prefix reached through the argument-less / alternative setters, caller buffer reuse for the wrappers",
    "C10": "; wrapDeep, lists nested 1-400 deep, empty member names, separators incl. \\t and ' | ', keys like @type and !x",
    "C11": "; 4-70 wrapper levels with paths as long; key alphabets with blanks, digits, ns:name, / ~ \\ | ? #, the empty string; Go-typed container values",
    "C12": "; wrapDeep, empty member names in old and new paths, new paths ending in -id / #text / -n, x2j.XmlNewXml compared as Maps",
    "C13": "; a document ending on a multiple of 512-8192 bytes, a document of 64-140 KiB, respelled JSON (\\/ \\u0061 N.0 blanks), file readers, cyclic schedules; unrelated library calls between the direct decodes and the stream and inside the handler",
    "C14": "; the JSON of the cast Map is compared leaf by leaf (type and value) with the cast Map",
    "C15": "; binary mutations of gob/JSON, name-like prefixes with reserved names, boundary indexes, wide maps",
    "C16": "; one of the equal builds shares a sub-structure; now and then an element with 64-1025 attributes and as many children; change-in-place then re-encode; unrelated library calls (also failing AnyXml lists) between the first and the second encoding",
    "C17": "; the shared Map below 3-70 wrappers, a 1000-1200 deep chain, option setters called right before the goroutines start, fresh sub-key arguments per call; a third of the cases with package options (escaping, casts, prefixes) set once up front",
    "C18": "; probe document with 1, 0, T, 2^64-1, 1e999, .5 leaves; non-setter calls (also failing ones) must leave the option state alone; look-alike white space at text edges; base taken before any setter was ever called",
    "C19": "; a document of 64-140 KiB; control byte inside a JSON document; whole floats up to 2^64; unrelated library calls (NewMapStruct, Copy of json.Number Maps ...) before the files are read",
    "C20": "; empty member names in the value, JSON text with a duplicated key / respelled, caller buffer reuse, CastNanInf in force, list / empty / BOM documents for the j2x conversion wrappers, new keys ending in -id / #text",
}
for _pid, _txt in DEVICES.items():
    PROPS[_pid]["bounds"] += _txt
