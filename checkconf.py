"""Per-property configuration of the checks (case counts, shards, rules) - read by ./check and mkmanifest.py."""

COMMON_ASSUMPTIONS = [
    "exploration only: absence of a counterexample within the stated bounds is evidence, not proof",
    "the Go standard library (encoding/xml tokenizer, encoding/json, strconv, reflect.DeepEqual) is trusted as the reference where the property itself refers to it",
    "each run is a pure function of /repo's working tree and VERIF_SEED (rapid seed = splitmix(VERIF_SEED, shard)); native fuzzing (thorough tier only) is not reproducible by seed, its saved input is",
    "package-level mxj options are at their defaults at the start of every case and restored at its end",
]


def tiers(quick_checks, thorough_checks, quick_shards=8, thorough_shards=16, **extra):
    q = dict(shards=quick_shards, checks=quick_checks, ceiling_s=600)
    t = dict(shards=thorough_shards, checks=thorough_checks, ceiling_s=3000)
    for k, v in extra.items():
        if k.startswith("q_"):
            q[k[2:]] = v
        elif k.startswith("t_"):
            t[k[2:]] = v
    return q, t


PROPS = {}


def prop(pid, test, quick, thorough, rule, bounds, technique, level_text, level_note, design_ref, assumptions=(), race=False):
    PROPS[pid] = dict(test=test, quick=quick, thorough=thorough, rule=rule, bounds=bounds, technique=technique,
                      level_text=level_text, level_note=level_note, design_ref=design_ref,
                      assumptions=list(assumptions), race=race)


q, t = tiers(12000, 400000)
prop("C07", "TestC07", q, t,
     rule="rapid draws a shape (type tree), instantiates a JSON-shaped Map from it and walks the shape to draw a path "
          "(15% '*' steps, optional [i], 1-6 steps, 10% one missing key); 10% of cases come from class boosters "
          "(two indexed list levels; results wider than 32). A case is non-trivial when the reference result is non-empty "
          "AND the path crosses a list or uses '*'/[i]; distinct = distinct 64-bit hash of the canonical JSON of the whole case (Map, path, array size).",
     bounds="shape depth <= 5, 2-4 root fields, 1-4 fields per map, list length 0-5 (33-80 for wide lists), path length 1-6, index in {0,1,2,4}",
     technique="property-based testing (rapid): shape-first generated Maps and paths against a hand-written reference evaluator of the path language; differential against j2x/x2j wrappers",
     level_text="Generated-input search: ValuesForPath/ValueForPath/ValueForPathString/Exists and the j2x/x2j path wrappers are compared, case by case, "
                "with an independent reference evaluator of the documented path semantics (sequence equality without wildcards, multiset equality with them). "
                "Class shares (non-empty, list-crossing, >=2 indexed steps, wide results) are measured and reported.",
     level_note="Trusted: the reference evaluator (ref_path_test.go, ~100 lines, written from the documentation); leniency 7 of DESIGN.md "
                "(a plain step does not enter a list that is a direct member of a list). Bounded sizes; no proof of absence.",
     design_ref="DESIGN.md section 4, C07")

q, t = tiers(5000, 150000)
prop("C01", "TestC01", q, t,
     rule="rapid draws an option set (attribute prefix x key prefix x 2^6 decoder switches x cast switches) and an abstract XML document "
          "(names from a 13-name alphabet with folding collisions, namespaced names, xmlns declarations, 0-3 attributes, text alone / at any position among children, "
          "CDATA and numeric character references, inter-element whitespace incl. CR/LF, occasional 33-80 children); the document is serialised by the harness. "
          "Non-trivial: >=2 elements AND (interleaved repeated sibling OR key collision by folding/empty prefix OR text beside attributes/children OR an option that changes the expected Map); "
          "distinct = hash of (options, document).",
     bounds="depth <= 4, fan-out 1-4 (33-80 for wide nodes), <= 3 attributes, text of 1-6 tokens from a 47-token hostile alphabet",
     technique="property-based testing (rapid): generated documents x option sets against a hand-written reference decoder of the documented XML->Map conventions",
     level_text="Generated-input search: NewMapXml, NewMapXmlReader (ByteReader and plain Reader), NewMapXmlReaderRaw and x2j.XmlToMap are compared with an "
                "independent reference decoder (refDecode, written from doc.go/readme/option comments) for every generated document and option combination.",
     level_note="Trusted: the reference decoder and the harness serializer. Narrowings (DESIGN.md C01): attribute names distinct after folding, lower-case attribute prefixes, "
                "no element named like a reserved key, blank runs under keep-spaces contain no spaces. Bounded sizes.",
     design_ref="DESIGN.md section 4, C01")

q, t = tiers(5000, 150000)
prop("C02", "TestC02", q, t,
     rule="C01 documents x symmetric option sets (non-empty attribute prefix, key prefix, lower, snake, simple-as-map, keep-spaces, encoder- or decoder-side escaping, "
          "float/bool cast, Go empty-element syntax) x {Xml, XmlIndent(blank prefix, blank indent)}. Non-trivial: the decoded Map contains a list, text plus children, "
          "an attribute-only element, a value with a special character or blank edge, or a cast leaf; distinct = hash of the case.",
     bounds="as C01; indent/prefix strings of <= 4 blanks (tabs only under keep-spaces)",
     technique="property-based testing (rapid): round trip decode-encode-decode with a well-formedness oracle (strict encoding/xml) and the C01 reference decoder tying the first Map to the source document",
     level_text="Generated-input search: m1=decode(doc) must equal the reference decode of the source tree, encode(m1) must be well formed with one root, and decode(encode(m1)) must equal m1, "
                "for compact and indented encoders under every drawn symmetric option combination.",
     level_note="Trusted: encoding/xml as well-formedness judge, the C01 reference decoder. Integer casting and tag sequence numbers excluded (documented asymmetric).",
     design_ref="DESIGN.md section 4, C02")

q, t = tiers(25000, 600000)
prop("C03", "TestC03", q, t,
     rule="rapid draws JSON-shaped values (maps, lists incl. empty/nested/mixed, strings from the hostile alphabet, numbers, booleans, nulls, '-k' and '#text' scalar entries, depth <= 4) "
          "and an entry point (Map.Xml, Map.XmlIndent, AnyXml, AnyXmlIndent with default/explicit tags, j2x.JsonToXml). Non-trivial: the value contains a list with >=2 members, "
          "a nested or empty list, a null inside a list, or attributes mixed with children; distinct = hash of the case.",
     bounds="depth <= 4, <= 4 entries per map, <= 3 members per list",
     technique="property-based testing (rapid): encode then decode, compared with a reference statement of the Map->XML conventions (refElems) composed with the C01 reference decoder",
     level_text="Generated-input search: the output of five encoder entry points must be well formed with exactly one root and must decode to refDecode(refElems(value)), "
                "which fixes key set, nesting, list order, scalar text, attribute/text placement and the four empty forms at once.",
     level_note="Trusted: refElems/refDecode, encoding/xml. Narrowings: '-k'/'#text' values are non-null scalars; no root without an element name; keys are XML names.",
     design_ref="DESIGN.md section 4, C03")

q, t = tiers(4000, 100000)
prop("C04", "TestC04", q, t,
     rule="rapid draws documents with arbitrary interleaving of sibling names, prefixed names and xmlns attributes, ordered attributes, <=1 comment/PI/directive per element at any position, "
          "text alone or before the children, inter-element whitespace, hostile values; MapSeq.Xml, MapSeq.XmlIndent, BeautifyXml and NewMapFormattedXmlSeq(indented) are each compared. "
          "Non-trivial: non-contiguous repeated sibling, >=2 attributes, a comment/PI/directive between elements, or leading text with children; distinct = hash of the case.",
     bounds="depth <= 4, fan-out 1-4 (33-80 wide), <= 3 attributes",
     technique="property-based testing (rapid): round trip through the sequence codec compared token by token (encoding/xml RawToken stream as structs) with the source document",
     level_text="Generated-input search: the normalised raw token stream (prefixed names, attribute order and values, trimmed text, comments/PIs/directives in position) of each encoder's output "
                "must equal that of the generated source document.",
     level_note="Trusted: encoding/xml RawToken as the token oracle; text is compared after trimming (inter-element whitespace is not significant per the property).",
     design_ref="DESIGN.md section 4, C04")

q, t = tiers(25000, 500000)
prop("C05", "TestC05", q, t,
     rule="four clauses drawn per case: (a) encoder-side escaping - hostile strings in element, attribute and text-beside-child positions of a Map/MapSeq, four encoders, exact value recovery; "
          "(b) decoder-side escaping - generated documents, decode-with-escaping/encode/plain-decode equals plain decode (Map) or equal token streams (MapSeq); "
          "(c) escaping off + XmlCheckIsValid - error or well-formed output, and the check never changes returned bytes; (d) call sequences over the two coupled escaping switches against a model. "
          "Non-trivial: some string holds one of & < > \" ' (a,b,c) / both switches are called (d); distinct = hash of the case.",
     bounds="strings of 1-6 tokens from a 25-token alphabet; documents depth <= 3; 1-5 switch calls",
     technique="property-based testing (rapid): round-trip value recovery, metamorphic relation between escaping modes, validity oracle (strict encoding/xml), small model of the coupled switches",
     level_text="Generated-input search over strings x positions x four encoders x escaping modes x validity switch with the oracles named in the rule.",
     level_note="Trusted: encoding/xml as validity judge. Element text is compared after the documented trimming.",
     design_ref="DESIGN.md section 4, C05")
