#!/bin/sh
# Re-run every quick check on the current tree (VERIF_SEED default 1) so that evidence/*.json is from the unchanged tree.
cd "$(dirname "$0")/.." || exit 2
rc=0
for p in C01 C02 C03 C04 C05 C06 C07 C08 C09 C10 C11 C12 C13 C14 C15 C16 C17 C18 C19 C20; do
  ./check $p ${1:-quick} | tail -1 || rc=1
done
exit $rc
