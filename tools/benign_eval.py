#!/usr/bin/env python3
"""Evaluate a BENIGN change (property-preserving, behaviour-changing) delivered by a sub-agent in /tmp/benign-<ID>:
the checks must stay silent on it.  Stores it under /verif/benign/<name>/ and runs the given checks (quick) against the
scratch worktree through VERIF_REPO.
usage: tools/benign_eval.py <worktree> <name> <property> [check-id ...]
"""
import glob, json, os, re, shutil, subprocess, sys

VERIF = os.path.dirname(os.path.dirname(os.path.abspath(__file__)))
ENV = dict(os.environ, GOFLAGS="-mod=mod", GOPROXY="off", GOSUMDB="off", GOTOOLCHAIN="local")


def sh(cmd, cwd=None, timeout=3000):
    return subprocess.run(cmd, shell=True, text=True, errors="replace", cwd=cwd, env=ENV, stdout=subprocess.PIPE, stderr=subprocess.STDOUT, timeout=timeout)


def main():
    wt, name, prop = sys.argv[1:4]
    checks = sys.argv[4:] or [prop]
    patch = os.path.join(wt, "BENIGN_PATCH.diff")
    meta = {"property": prop, "name": name}
    if sh("git apply -R --check BENIGN_PATCH.diff", cwd=wt).returncode != 0:
        r = sh("git apply BENIGN_PATCH.diff", cwd=wt)
        assert r.returncode == 0, r.stdout
    demos = glob.glob(os.path.join(wt, "benign_demo*_test.go"))
    r = sh("go test -vet=off -count=1 . ./j2x ./x2j-wrapper", cwd=wt)
    meta["suite_and_demo_pass_with_change"] = r.returncode == 0
    sh("git checkout -- go.sum", cwd=wt)
    dst = os.path.join(VERIF, "benign", name)
    os.makedirs(dst, exist_ok=True)
    shutil.copy(patch, os.path.join(dst, "patch.diff"))
    for d in demos:
        shutil.copy(d, os.path.join(dst, os.path.basename(d) + ".txt"))
    if os.path.exists(os.path.join(wt, "BENIGN_NOTES.md")):
        shutil.copy(os.path.join(wt, "BENIGN_NOTES.md"), os.path.join(dst, "NOTES.md"))
    sh("git checkout -- verif_hooks.go", cwd=wt)
    for d in demos:
        shutil.move(d, d + ".aside")
    ENV["VERIF_REPO"] = wt
    ENV["VERIF_OUT_DIR"] = "/tmp/verif-tool-out-%d" % os.getpid()
    meta["checks"] = {}
    try:
        for cid in checks:
            c = sh("./check %s quick" % cid, cwd=VERIF, timeout=7200)
            alarm = c.returncode != 0 or "VIOLATION property=" in c.stdout
            first = ""
            m = re.search(r"^--- (.*)$", c.stdout, re.M)
            if m:
                first = c.stdout[m.start():m.start() + 1500]
            meta["checks"][cid] = {"exit": c.returncode, "alarm": alarm, "first": first}
            print(name, cid, "exit", c.returncode, "ALARM" if alarm else "silent")
            if alarm:
                print(first[:1200] or c.stdout[-1200:])
    finally:
        for d in demos:
            shutil.move(d + ".aside", d)
        shutil.rmtree("/tmp/verif-tool-out-%d" % os.getpid(), ignore_errors=True)
    json.dump(meta, open(os.path.join(dst, "meta.json"), "w"), indent=1)


if __name__ == "__main__":
    main()
