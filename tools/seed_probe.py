#!/usr/bin/env python3
"""How robustly is a stored seeded change caught?  Runs ./check <property> quick against seeded/<name>/patch.diff at
several VERIF_SEED values (scratch worktree of /repo HEAD under /tmp, removed afterwards; /repo is not modified).
usage: tools/seed_probe.py <name> [seed ...]      (default seeds 1 2 3)
       tools/seed_probe.py <name>@<check-id> ...  (run another property's check against the change)
"""
import json, os, re, shutil, subprocess, sys

VERIF = os.path.dirname(os.path.dirname(os.path.abspath(__file__)))


def sh(cmd, cwd=None, env=None):
    return subprocess.run(cmd, shell=True, text=True, errors="replace", cwd=cwd, env=env, stdout=subprocess.PIPE, stderr=subprocess.STDOUT)


def main():
    name = sys.argv[1]
    seeds = sys.argv[2:] or ["1", "2", "3"]
    prop = None
    if "@" in name:
        name, prop = name.split("@")
    d = os.path.join(VERIF, "seeded", name)
    prop = prop or json.load(open(os.path.join(d, "meta.json")))["property"]
    wt = "/tmp/seedprobe-%s-%d" % (name, os.getpid())
    out = "/tmp/verif-probe-out-%d" % os.getpid()
    sh("git -C /repo worktree remove --force " + wt)
    sh("git -C /repo worktree add --detach %s HEAD" % wt)
    try:
        r = sh("git apply %s" % os.path.join(d, "patch.diff"), cwd=wt)
        if r.returncode != 0:
            print(name, "patch does not apply:", r.stdout[-200:])
            return
        for s in seeds:
            env = dict(os.environ, VERIF_REPO=wt, VERIF_OUT_DIR=out, VERIF_SEED=s)
            c = sh("./check %s quick" % prop, cwd=VERIF, env=env)
            kinds = sorted(set(re.findall(r"^--- ([a-z0-9-]+):", c.stdout, re.M)))[:4]
            print(name, prop, "seed", s, "exit", c.returncode, "CAUGHT" if "VIOLATION property=" in c.stdout else "missed", kinds, flush=True)
    finally:
        sh("git -C /repo worktree remove --force " + wt)
        shutil.rmtree(wt, ignore_errors=True)
        shutil.rmtree(out, ignore_errors=True)
        sh("git -C /repo worktree prune")


if __name__ == "__main__":
    main()
