#!/usr/bin/env python3
"""Sensitivity trial: reverse-apply each 'fix:' commit of /repo to the working tree (one at a time),
run the quick check(s) that should notice, restore the tree.  Results go to tools/revert_sensitivity.json;
the shrunk failing case of each detection is copied to regress/<id>/ (expect: pass on the repaired tree).

usage: tools/revert_sensitivity.py [commit-prefix ...]
"""
import json, os, re, shutil, subprocess, sys, glob

VERIF = os.path.dirname(os.path.dirname(os.path.abspath(__file__)))
REPO = "/repo"
# commit subject fragment -> properties whose check should notice the reverted fix
EXPECT = [
    ("indexed step after a plain step", ["C07", "C09"]),
    ("negative index", ["C15"]),
    ("sub-key argument with an empty name", ["C15"]),
    ("LeafNodes panicked on an empty key", ["C15", "C09"]),
    ("LeafPaths and LeafValues ignored", ["C09"]),
    ("wrote one level too high", ["C10"]),
    ("RenameKey overwrote", ["C11"]),
    ("SetValueForPath panicked", ["C11", "C15"]),
    ("NewMap modified the receiver", ["C12"]),
    ("cast treated '+Inf'", ["C14"]),
    ("text before the root element", ["C15"]),
    ("dereferenced a nil pointer", ["C15"]),
    ("ends in an escaped backslash", ["C13"]),
    ("full io.Reader contract", ["C13"]),
    ("end tag that precedes any start tag", ["C15"]),
    ("never reported invalid output", ["C05"]),
    ("text that precedes child elements", ["C04", "C15"]),
    ("Maps.JsonString and JsonStringIndent", ["C16"]),
    ("x2j-wrapper PathsForKey returned paths", ["C20"]),
    ("j2x.MapToJson ignored", ["C20", "C06"]),
    ("Map.Gob failed", ["C19"]),
    ("produced invalid JSON", ["C06"]),
    ("Map.Xml wrote malformed XML for an attribute-only", ["C02"]),
    ("ValuesForPath found nothing below a list nested", ["C08"]),
    ("recursed without end", ["C15"]),
    ("MapSeq.Xml wrote malformed XML for an empty element", ["C04", "C18"]),
    ("x2j-wrapper ValuesFromKeyPath found nothing", ["C20"]),
    ("descends a list nested in a list", ["C10"]),
    ("NewMapGob returned a partly decoded", ["C15"]),
    ("NewMapJson returned a partly filled", ["C15"]),
    ("element named like a reserved key", ["C15"]),
    ("namespace prefix contains", ["C15"]),
    ("PathsForKey dropped a top-level empty key", ["C08"]),
    ("LeafNodes/LeafPaths dropped a top-level empty key", ["C09"]),
    ("with an index ignored empty path segments", ["C07", "C09"]),
    ("mistook a parent that is the empty key", ["C11"]),
    ("panicked at a wildcard over a map with an empty key", ["C20"]),
    ("accepted a mismatched end tag under CoerceKeysToSnakeCase", ["C15"]),
]


def sh(cmd, **kw):
    return subprocess.run(cmd, shell=True, text=True, errors="replace", stdout=subprocess.PIPE, stderr=subprocess.STDOUT, **kw)


def main():
    only = sys.argv[1:]
    assert sh("git -C %s status --porcelain" % REPO).stdout.strip() == "", "/repo working tree must be clean"
    log = sh("git -C %s log --format='%%h %%s' --grep='^fix:'" % REPO).stdout.strip().splitlines()
    out_path = os.path.join(VERIF, "tools", "revert_sensitivity.json")
    results = json.load(open(out_path)) if os.path.exists(out_path) else {}
    for line in reversed(log):
        h, subj = line.split(" ", 1)
        if only and not any(h.startswith(o) for o in only):
            continue
        props = next((p for frag, p in EXPECT if frag in subj), None)
        if props is None:
            print("no expectation for", line)
            continue
        r = sh("git -C %s show %s -- . ':!verif_hooks.go' | git -C %s apply -R" % (REPO, h, REPO))
        if r.returncode != 0:
            results[h] = {"subject": subj, "status": "reverse patch does not apply (later fixes touch the same lines)", "detail": r.stdout[-300:]}
            print(h, "reverse-apply failed")
            sh("git -C %s checkout -- ." % REPO)
            continue
        entry = {"subject": subj, "checks": {}}
        try:
            for pid in props:
                shutil.rmtree(os.path.join(VERIF, "replays"), ignore_errors=True)
                c = sh("./check %s quick" % pid, cwd=VERIF)
                viol = re.findall(r"VIOLATION property=(\S+) replay=(\S+)", c.stdout)
                kinds = re.findall(r"^--- ([a-z0-9-]+):", c.stdout, re.M)
                entry["checks"][pid] = {"exit": c.returncode, "caught": bool(viol), "failure_kinds": sorted(set(kinds))[:4]}
                print(h, pid, "exit", c.returncode, "caught" if viol else "MISSED", sorted(set(kinds))[:3])
                if viol:
                    src = viol[0][1]
                    if src.endswith(".json") and os.path.exists(src):
                        rf = json.load(open(src))
                        rf["expect"] = "pass"
                        rf["note"] = "shrunk case found with /repo commit %s reverted (%s)" % (h, subj)
                        slug = re.sub(r"[^a-z0-9]+", "-", subj.lower())[:50].strip("-")
                        d = os.path.join(VERIF, "regress", pid)
                        os.makedirs(d, exist_ok=True)
                        for old in glob.glob(os.path.join(d, "fixed-%s-*.json" % h)):
                            os.remove(old)
                        json.dump(rf, open(os.path.join(d, "fixed-%s-%s.json" % (h, slug)), "w"), indent=1)
        finally:
            sh("git -C %s checkout -- ." % REPO)
        results[h] = entry
        json.dump(results, open(out_path, "w"), indent=1)
    shutil.rmtree(os.path.join(VERIF, "replays"), ignore_errors=True)
    assert sh("git -C %s status --porcelain" % REPO).stdout.strip() == ""


if __name__ == "__main__":
    main()
