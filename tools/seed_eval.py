#!/usr/bin/env python3
"""Evaluate a seeded change delivered by a sub-agent in /tmp/seed-<ID>:
   1. confirm in its scratch worktree: demo passes without the patch, fails with it, library suite passes with it;
   2. store it as /verif/seeded/<name>/ (patch.diff, demo, notes, meta.json);
   3. apply it to /repo, run the given checks (quick, optionally thorough), undo.
usage: tools/seed_eval.py <worktree> <name> <property> [check-id ...] [--thorough]
"""
import json, os, shutil, subprocess, sys, re, glob

VERIF = os.path.dirname(os.path.dirname(os.path.abspath(__file__)))
ENV = dict(os.environ, GOFLAGS="-mod=mod", GOPROXY="off", GOSUMDB="off", GOTOOLCHAIN="local")


def sh(cmd, cwd=None, timeout=3000):
    return subprocess.run(cmd, shell=True, text=True, errors="replace", cwd=cwd, env=ENV, stdout=subprocess.PIPE, stderr=subprocess.STDOUT, timeout=timeout)


def main():
    args = [a for a in sys.argv[1:] if not a.startswith("--")]
    thorough = "--thorough" in sys.argv
    wt, name, prop = args[0], args[1], args[2]
    checks = args[3:] or [prop]
    patch = os.path.join(wt, "SEED_PATCH.diff")
    meta = {"property": prop, "name": name, "ran": []}
    demos = glob.glob(os.path.join(wt, "seed_demo*_test.go")) + glob.glob(os.path.join(wt, "*", "seed_demo*_test.go"))
    pkgs = ". ./j2x ./x2j-wrapper"
    race = "-race " if prop == "C17" else ""
    # 1. confirm
    st = sh("git status --porcelain", cwd=wt).stdout
    applied = sh("git apply -R --check SEED_PATCH.diff", cwd=wt).returncode == 0
    if not applied:
        r = sh("git apply SEED_PATCH.diff", cwd=wt)
        assert r.returncode == 0, "patch does not apply: " + r.stdout
    r = sh("go test %s-vet=off -count=1 -run 'Seed' %s" % (race, pkgs), cwd=wt)
    meta["demo_fails_with_change"] = r.returncode != 0
    meta["ran"].append("with change: go test %s-run Seed -> exit %d" % (race, r.returncode))
    moved = []
    for d in demos:
        shutil.move(d, d + ".aside")
        moved.append(d)
    r = sh("go test -vet=off -count=1 %s" % pkgs, cwd=wt)
    meta["suite_passes_with_change"] = r.returncode == 0
    meta["ran"].append("with change, demo aside: go test . ./j2x ./x2j-wrapper -> exit %d" % r.returncode)
    for d in moved:
        shutil.move(d + ".aside", d)
    sh("git apply -R SEED_PATCH.diff", cwd=wt)
    r = sh("go test %s-vet=off -count=1 -run 'Seed' %s" % (race, pkgs), cwd=wt)
    meta["demo_passes_without_change"] = r.returncode == 0
    meta["ran"].append("without change: go test %s-run Seed -> exit %d" % (race, r.returncode))
    sh("git apply SEED_PATCH.diff", cwd=wt)
    sh("git checkout -- go.sum", cwd=wt)
    ok = meta["demo_fails_with_change"] and meta["suite_passes_with_change"] and meta["demo_passes_without_change"]
    meta["confirmed"] = ok
    print(name, "confirmed" if ok else "NOT CONFIRMED", meta)
    if not ok:
        return 1
    # 2. store
    dst = os.path.join(VERIF, "seeded", name)
    os.makedirs(dst, exist_ok=True)
    shutil.copy(patch, os.path.join(dst, "patch.diff"))
    for d in demos:
        shutil.copy(d, os.path.join(dst, os.path.basename(d) + ".txt"))  # .txt: must not be compiled as part of /verif
    notes = os.path.join(wt, "SEED_NOTES.md")
    if os.path.exists(notes):
        shutil.copy(notes, os.path.join(dst, "NOTES.md"))
        meta["needs"] = open(notes, errors="replace").read()[:1500]
    # 3. run the checks against it: in the scratch worktree itself (VERIF_REPO), never in /repo
    sh("git checkout -- verif_hooks.go", cwd=wt)
    for d in demos:
        shutil.move(d, d + ".aside")
    ENV["VERIF_REPO"] = wt
    ENV["VERIF_OUT_DIR"] = "/tmp/verif-tool-out-%d" % os.getpid()
    meta["checks"] = {}
    try:
        for cid in checks:
            for tier in (["quick", "thorough"] if thorough else ["quick"]):
                c = sh("./check %s %s" % (cid, tier), cwd=VERIF, timeout=7200)
                caught = "VIOLATION property=" in c.stdout
                kinds = sorted(set(re.findall(r"^--- ([a-z0-9-]+):", c.stdout, re.M)))[:4]
                first = ""
                m = re.search(r"^--- (.*)$", c.stdout, re.M)
                if m:
                    first = c.stdout[m.start():m.start() + 600]
                meta["checks"]["%s %s" % (cid, tier)] = {"exit": c.returncode, "caught": caught, "kinds": kinds, "first": first}
                print(name, cid, tier, "exit", c.returncode, "CAUGHT" if caught else "missed", kinds)
                if caught:
                    break
    finally:
        for d in demos:
            shutil.move(d + ".aside", d)
        shutil.rmtree("/tmp/verif-tool-out-%d" % os.getpid(), ignore_errors=True)
    json.dump(meta, open(os.path.join(dst, "meta.json"), "w"), indent=1)
    return 0


if __name__ == "__main__":
    sys.exit(main())
