#!/usr/bin/env python3
"""Re-run every stored seeded change against the current checks (regression of the seed table).
For each seeded/<name>/patch.diff: scratch worktree of /repo HEAD under /tmp, apply, run ./check <property> quick
with VERIF_REPO pointing at it, record, remove the worktree.  Writes seeded/MATRIX.json.  /repo is not modified.
usage: tools/seed_matrix.py [name ...]
"""
import glob, json, os, re, shutil, subprocess, sys

VERIF = os.path.dirname(os.path.dirname(os.path.abspath(__file__)))


def sh(cmd, cwd=None, env=None):
    return subprocess.run(cmd, shell=True, text=True, errors="replace", cwd=cwd, env=env, stdout=subprocess.PIPE, stderr=subprocess.STDOUT)


def snapshot():
    """The checks run from a copy of /verif taken now: harness edits made while the matrix runs must not reach it."""
    snap = "/tmp/verif-snap-%s-%d" % ("seedmx", os.getpid())
    shutil.rmtree(snap, ignore_errors=True)
    shutil.copytree(VERIF, snap, ignore=shutil.ignore_patterns(".git", "replays", "evidence"))
    os.makedirs(os.path.join(snap, "replays"), exist_ok=True)
    os.makedirs(os.path.join(snap, "evidence"), exist_ok=True)
    return snap


def main():
    SNAP = snapshot()
    names = sys.argv[1:] or sorted(os.path.basename(os.path.dirname(p)) for p in glob.glob(os.path.join(VERIF, "seeded", "*", "patch.diff")))
    out_path = os.environ.get("MATRIX_OUT") or os.path.join(VERIF, "seeded", "MATRIX.json")  # MATRIX_OUT: partial result of one of several parallel runs
    res = json.load(open(out_path)) if os.path.exists(out_path) else {}
    head = sh("git -C /repo rev-parse --short HEAD").stdout.strip()
    try:
        for name in names:
            d = os.path.join(VERIF, "seeded", name)
            meta = json.load(open(os.path.join(d, "meta.json")))
            prop = meta["property"]
            wt = "/tmp/seedmx-" + name
            sh("git -C /repo worktree remove --force " + wt)
            r = sh("git -C /repo worktree add --detach %s HEAD" % wt)
            try:
                r = sh("git apply %s" % os.path.join(d, "patch.diff"), cwd=wt)
                if r.returncode != 0:
                    res[name] = {"property": prop, "repo_head": head, "status": "patch no longer applies: " + r.stdout[-200:]}
                    print(name, "patch does not apply")
                    continue
                env = dict(os.environ, VERIF_REPO=wt, VERIF_OUT_DIR="/tmp/verif-tool-out-%d" % os.getpid())
                c = sh("./check %s quick" % prop, cwd=SNAP, env=env)
                caught = "VIOLATION property=" in c.stdout
                kinds = sorted(set(re.findall(r"^--- ([a-z0-9-]+):", c.stdout, re.M)))[:4]
                res[name] = {"property": prop, "repo_head": head, "exit": c.returncode, "caught": caught, "kinds": kinds}
                print(name, prop, "exit", c.returncode, "CAUGHT" if caught else "missed", kinds, flush=True)
            finally:
                sh("git -C /repo worktree remove --force " + wt)
                shutil.rmtree(wt, ignore_errors=True)
            json.dump(res, open(out_path, "w"), indent=1, sort_keys=True)
    finally:
        shutil.rmtree("/tmp/verif-tool-out-%d" % os.getpid(), ignore_errors=True)
    sh("git -C /repo worktree prune")
    shutil.rmtree(SNAP, ignore_errors=True)


if __name__ == "__main__":
    main()
