#!/usr/bin/env python3
"""Run ALL quick checks against every stored benign change (benign/<name>/patch.diff): they must all stay silent,
except where the change does violate ANOTHER listed property (recorded and explained in DESIGN.md).
Writes benign/MATRIX.json.  /repo is not modified (scratch worktrees + VERIF_REPO).
usage: tools/benign_matrix.py [name ...]
"""
import glob, json, os, re, shutil, subprocess, sys

VERIF = os.path.dirname(os.path.dirname(os.path.abspath(__file__)))
ALL = ["C%02d" % i for i in range(1, 21)]


def sh(cmd, cwd=None, env=None):
    return subprocess.run(cmd, shell=True, text=True, errors="replace", cwd=cwd, env=env, stdout=subprocess.PIPE, stderr=subprocess.STDOUT)


def snapshot():
    """The checks run from a copy of /verif taken now: harness edits made while the matrix runs must not reach it."""
    snap = "/tmp/verif-snap-%s-%d" % ("benignmx", os.getpid())
    shutil.rmtree(snap, ignore_errors=True)
    shutil.copytree(VERIF, snap, ignore=shutil.ignore_patterns(".git", "replays", "evidence"))
    os.makedirs(os.path.join(snap, "replays"), exist_ok=True)
    os.makedirs(os.path.join(snap, "evidence"), exist_ok=True)
    return snap


def main():
    SNAP = snapshot()
    names = sys.argv[1:] or sorted(os.path.basename(os.path.dirname(p)) for p in glob.glob(os.path.join(VERIF, "benign", "*", "patch.diff")))
    out_path = os.path.join(VERIF, "benign", "MATRIX.json")
    res = json.load(open(out_path)) if os.path.exists(out_path) else {}
    for name in names:
        d = os.path.join(VERIF, "benign", name)
        wt = "/tmp/benignmx-" + name
        sh("git -C /repo worktree remove --force " + wt)
        sh("git -C /repo worktree add --detach %s HEAD" % wt)
        try:
            r = sh("git apply %s" % os.path.join(d, "patch.diff"), cwd=wt)
            if r.returncode != 0:
                res[name] = {"status": "patch no longer applies"}
                continue
            env = dict(os.environ, VERIF_REPO=wt, VERIF_OUT_DIR="/tmp/verif-benignmx-out")
            row = dict(res.get(name, {})) if isinstance(res.get(name), dict) and "status" not in res.get(name, {}) else {}
            own = name.split("-")[0]
            # BENIGN_CHECKS restricts the run (e.g. "own,C15,C18,C20"); rows keep the results of earlier runs for the other checks
            sel = [own if x == "own" else x for x in os.environ.get("BENIGN_CHECKS", "").split(",") if x] or ALL
            for cid in [c for c in ALL if c in sel]:
                c = sh("./check %s quick" % cid, cwd=SNAP, env=env)
                alarm = c.returncode != 0
                first = ""
                m = re.search(r"^--- (.*)$", c.stdout, re.M)
                if m:
                    first = c.stdout[m.start():m.start() + 500]
                row[cid] = {"exit": c.returncode, "first": first} if alarm else {"exit": 0}
                if alarm:
                    print(name, cid, "ALARM", first[:300].replace("\n", " | "), flush=True)
            res[name] = row
            print(name, "done; alarms:", [k for k, v in row.items() if v["exit"] != 0], flush=True)
        finally:
            sh("git -C /repo worktree remove --force " + wt)
            shutil.rmtree(wt, ignore_errors=True)
            shutil.rmtree("/tmp/verif-benignmx-out", ignore_errors=True)
        json.dump(res, open(out_path, "w"), indent=1, sort_keys=True)
    sh("git -C /repo worktree prune")
    shutil.rmtree(SNAP, ignore_errors=True)


if __name__ == "__main__":
    main()
